#!/bin/sh
# Build the exporter (nightly, rustc_private, no crates.io deps) and warm the dependency cache.
set -e
cd "$(dirname "$0")"
export CARGO_NET_OFFLINE=true
(cd driver && cargo +nightly build --release --offline)
