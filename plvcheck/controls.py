"""Positive controls (thorough tier): every seeded change kept for this property (/verif/seeded/<id>, written by an
independent sub-agent from the property text alone and confirmed to break the property while passing the test suite)
is applied to a scratch copy of /repo's *current working tree* (outside /repo and /verif, removed afterwards) and the
property's rule module is run on that copy: it must report a violation.  This guards every rule family against silent
loss of sensitivity (a rule matching nothing, an anchor that drifted).  A control that does not apply to the current
tree is skipped; a control that applies and is not reported is recorded in the evidence and printed as a warning - it
says something about the checker, not about the property on the tree under analysis, so it is not a VIOLATION."""
import json
import os
import re
import shutil
import subprocess
import tempfile
from concurrent.futures import ThreadPoolExecutor

from .extract import VERIF, REPO


def _controls_for(pid):
    out = []
    sd = os.path.join(VERIF, "seeded")
    for d in sorted(os.listdir(sd)):
        p = os.path.join(sd, d)
        if not os.path.isfile(os.path.join(p, "patch.diff")) or not os.path.isfile(os.path.join(p, "meta.json")):
            continue
        try:
            meta = json.load(open(os.path.join(p, "meta.json")))
        except ValueError:
            continue
        props = str(meta.get("property") or "").split(",")
        if pid in props or (d.startswith("revert") and pid in (meta.get("detected_by") or [])):
            out.append((d, os.path.join(p, "patch.diff")))
    return out


def _run_one(pid, cid, patch, base):
    work = os.path.join(base, cid)
    tree = os.path.join(work, "tree")
    os.makedirs(work)
    r = subprocess.run(["rsync", "-a", "--exclude", "/target", "--exclude", "/.git", REPO.rstrip("/") + "/", tree + "/"], capture_output=True, text=True)
    if r.returncode != 0:
        return cid, "error", "copy failed: " + r.stderr[-200:]
    r = subprocess.run(["git", "apply", "--whitespace=nowarn", patch], cwd=tree, capture_output=True, text=True)
    if r.returncode != 0:
        r = subprocess.run(["patch", "-p1", "-s", "-f", "-i", patch], cwd=tree, capture_output=True, text=True)
        if r.returncode != 0:
            return cid, "skipped", "does not apply to the current tree"
    env = dict(os.environ, PLV_REPO=tree, PLV_WORK_TAG="-ctl-" + cid, VERIF_TIER="quick")
    r = subprocess.run([os.path.join(VERIF, "plv"), "multi", pid], cwd=VERIF, env=env, capture_output=True, text=True)
    shutil.rmtree(os.path.join(VERIF, ".work", "multi-quick-ctl-" + cid), ignore_errors=True)
    m = re.search(r"^%s (VIOLATION|ok|ERROR) ?(\d*)(.*)$" % pid, r.stdout, re.M)
    if not m:
        return cid, "error", (r.stdout + r.stderr)[-300:]
    if m.group(1) == "VIOLATION":
        return cid, "detected", "%s violating key(s):%s" % (m.group(2), m.group(3)[:160])
    if m.group(1) == "ERROR":
        return cid, "detected", "the tree with the change cannot be analysed (fail closed): " + m.group(3)[:160]
    return cid, "missed", "the rule module reports no violation on the tree with this change"


def run_controls(pid, chk):
    ctl = _controls_for(pid)
    base = tempfile.mkdtemp(prefix="plvctl-%s-" % pid)
    res = []
    try:
        with ThreadPoolExecutor(max_workers=6) as ex:
            for r in ex.map(lambda c: _run_one(pid, c[0], c[1], base), ctl):
                res.append(r)
    finally:
        shutil.rmtree(base, ignore_errors=True)
    counts = {}
    for cid, st, note in res:
        counts[st] = counts.get(st, 0) + 1
    chk.stats["positive_controls"] = {"total": len(res), **counts,
                                      "results": [{"control": c, "status": s, "note": n} for c, s, n in res]}
    for cid, st, note in res:
        if st == "missed":
            print("CONTROL-MISSED: property=%s seeded change %s is not reported on a scratch copy of the current tree (%s)" % (pid, cid, note))
        elif st == "error":
            print("CONTROL-ERROR: property=%s %s: %s" % (pid, cid, note))
    print("%s positive controls: %d seeded change(s): %s" % (pid, len(res), ", ".join("%d %s" % (v, k) for k, v in sorted(counts.items()))))
