"""C19 - the exported order queue is a FIFO with lookup and removal by id."""
from ..queue import QueueAnalysis

RULES = {
    "P1": "FIFO primitives: push = one map insert + one ticket append of the order's own id; pop returns the entry of the ticket it just took, retries only on a map miss, reports empty only when tickets are exhausted",
    "P2": "constructors (from_vec, From<Vec>, FromStr, Deserialize) iterate forward and push exactly the current element once per iteration, starting from an empty queue",
    "P5": "tickets cannot go stale: a function that removes a map entry without consuming its ticket leaves the ticket behind; then pop must validate a ticket by more than key membership (otherwise a re-pushed id inherits the old position)",
    "K4": "remove/find: remove hands out the map removal's payload for the given id, find only reads",
    "Y1": "one store: len / is_empty / to_vec / find / Serialize read the id map (never the ticket queue, which still holds tickets of removed orders)",
    "V2": "to_vec lists each map entry once (collect over map iteration), last mutation a sort keyed on timestamp()",
    "J1": "JSON form: the queue's elements keep their ids (OrderId writes to_string(), reads an owned string through from_str - a borrowed &str would fail for from_reader / from_value / escaped text - and that pair round-trips); no asymmetric serde attribute on the element types",
    "Q2": "nothing outside OrderQueue's own methods touches the map or the ticket queue; both fields private",
}


def run(ctx, chk):
    _run(ctx, chk)
    if ctx.tier == "thorough":
        from ..witness import run_witnesses
        chk.rule("W", "(thorough) compile_fail witnesses: naming the private state of the queue from outside the crate is rejected by rustc (E0616), while the twin using only public accessors type-checks")
        run_witnesses(ctx, chk, "W", ['queue'])


def _run(ctx, chk):
    for k, v in RULES.items():
        chk.rule(k, v)
    chk.explanation = (
        "Structural rules over the MIR paths of every OrderQueue method (E1) plus who-may-call (E2): the queue's "
        "behaviour over arbitrary call sequences is not executed; what is decided is that the primitives have the shape "
        "of a ticketed FIFO over one id map, that the constructors preserve input order, and that every observer reads the "
        "same store. P5 is a known finding on the pinned tree (stale tickets).")
    chk.assumptions = ["DashMap behaves as a map, SegQueue as a FIFO", "text/JSON forms: see C16/C17 for the codec tables"]
    chk.not_decided = ["pop order over arbitrary sequences beyond the primitives' shape"]
    Q = QueueAnalysis(ctx)
    Q.rule_push(chk, "P1", None)    # single-threaded property: the order of insert and ticket append is not observable
    Q.rule_pop(chk, "P1", "P1", "K4", seq=True)
    Q.rule_remove_find(chk, "K4", seq=True)
    Q.rule_constructors(chk, "P2")
    Q.rule_one_store(chk, "Y1")
    Q.rule_to_vec(chk, "V2")
    Q.who_may(chk, "Q2")
    Q.rule_private(chk, "Q2")
    from .c17 import rule_serde_attrs, rule_order_id_json
    rule_serde_attrs(ctx, chk, "J1", "J1")
    rule_order_id_json(ctx, chk, "J1")
    rule_stale_tickets(ctx, chk, Q, "P5", "C19")


def rule_stale_tickets(ctx, chk, Q, rid, pid):
    """P5: (a) some function removes a map entry without consuming a ticket, and (b) pop accepts a ticket by key membership only"""
    leavers = []
    for nm in ("remove",):
        b, res, _ = Q.paths(nm)
        for r in res:
            if r.kind != "return":
                continue
            mp = [e for e in Q.effs(r, "MAP") if e[1] == "MAP.remove"]
            tk = [e for e in Q.effs(r, "TICKET")]
            if mp and not tk:
                leavers.append(b)
                break
    b, res, _ = Q.paths("pop")
    by_key_only = False
    for r in res:
        if r.kind == "return" and isinstance(r.value, tuple) and r.value[0] == "agg" and r.value[2] == "Some":
            # acceptance test of the ticket: only `map.remove(ticket).is_some()`; the ticket type carries only the id
            tk = [e for e in Q.effs(r, "TICKET")]
            facts_about_entry = [a for a, p in r.facts.order if a[0] not in ("variant",)]
            if tk and not facts_about_entry:
                by_key_only = True
    ticket_ty = Q.ticket_field["ty"]
    carries_only_id = ticket_ty.endswith("<orders::base::OrderId>")
    if leavers and by_key_only and carries_only_id:
        chk.fail(rid, Q.adt["def"] + "::remove+pop", leavers[0].span,
                 "OrderQueue::remove deletes the map entry but leaves its ticket in the FIFO, and pop accepts any ticket whose id is "
                 "present in the map: an id pushed again after remove (re-add, same-price amend) is served at the OLD ticket's position")
    else:
        chk.ok(rid, "stale-tickets", "")
