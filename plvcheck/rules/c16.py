"""C16 - text encodings round-trip: writer/reader table agreement (E3)."""
import re
from ..terms import short, subterms, is_int, Int
from ..common import describe_path
from ..db import AnchorError, strip_generics
from ..panics import lit_of, pat_text
from .. import tables as T


PLUMBING = {"parse", "get", "ok_or", "ok_or_else", "map_err", "branch", "from_residual", "trim", "index", "as_str", "copied", "cloned"}


def own_parser(calls):
    """the value reaches the field through the field type's own parser: `T::from_str(v)`, or `v.parse()` with nothing
    but lookup / error plumbing around it (then the type checker forces parse::<T>, which is T::from_str)"""
    cs = set(calls)
    return "from_str" in cs or "from_string" in cs or ("parse" in cs and cs <= PLUMBING)


def parser_owner_ok(path, base):
    """does the from_str call `path` belong to type `base`?  `<m::Base as FromStr>::from_str`, `m::Base::from_str`, or an
    external crate's parser named after the type (`uuid::parser::from_str` for Uuid)"""
    m = re.match(r"^<(.+) as .*FromStr>::from_str$", path)
    if m:
        return strip_generics(m.group(1)).split("::")[-1] == base
    segs = path.split("::")
    if len(segs) >= 2 and strip_generics(segs[-2]) == base:
        return True
    return segs[0].lower() == base.lower()


def elem_base(ty):
    """last path segment of a type, looking through Vec<..> / Option<..> / Arc<..>"""
    t = ty.replace(" ", "")
    for w in ("std::vec::Vec<", "std::option::Option<", "std::sync::Arc<"):
        while t.startswith(w) and t.endswith(">"):
            t = t[len(w):-1]
            if "," in t and w == "std::vec::Vec<":
                t = t.split(",")[0]
    return strip_generics(t).split("::")[-1]


def typed_own_parser(fcalls, base):
    """own_parser over full callee paths: a from_str that is present must be the field type's own"""
    cs = {c.split("::")[-1] for c in fcalls}
    fs = [c for c in fcalls if c.split("::")[-1] in ("from_str", "from_string")]
    if fs:
        return any(parser_owner_ok(c, base) for c in fs)
    return "parse" in cs and cs <= PLUMBING


def direct_own_parser(term, base):
    """the field value is *directly* what the field type's own parser returned (the Ok / Some payload, possibly through
    error plumbing), not something built from another type's parse (`Uuid::from_str(v).map(OrderId::from_uuid)`)"""
    t = term
    for _ in range(16):
        if not isinstance(t, tuple) or not t:
            return False
        if t[0] == "field" and t[2] in ("Ok", "Some"):
            t = t[1]
            continue
        if t[0] in ("refval",):
            t = t[1]
            continue
        if t[0] == "call" and isinstance(t[1], str):
            last = t[1].split("::")[-1]
            if last in ("from_str", "from_string"):
                return parser_owner_ok(t[1], base)
            if last == "parse":
                return True        # the type checker forces parse::<FieldType>, which is FieldType::from_str
            if last in PLUMBING and t[2]:
                t = t[2][0]
                continue
            return False
        return False
    return False


RULES = {
    "X1": "tag: the literal prefix Display writes for a type/variant equals the literal the parser matches to build that type/variant",
    "X2": "keys: the key set written equals the key set whose values flow into the value the parser returns (per variant)",
    "X3": "binding: key k is fed by field f in the writer <=> the value looked up under k ends in field f in the reader",
    "X4": "type/format: every key=value placeholder is written with plain `{}` (Display, default options) - except the Debug+to_uppercase idiom for a unit enum read through an upper-casing parser; the reader converts with str::parse / the field type's own FromStr / a literal match and applies no cast",
    "X5": "separator safety: the type of every printed field has a textual alphabet avoiding `: ; = , [ ]` (integers, bool, uuid/ulid ids, crate enums whose own Display literals avoid them); list element types avoid the list's joiner and brackets",
    "X6": "case folding: where the reader upper-cases its input, every writer literal is a fixed point of upper-casing",
    "X7": "unit-enum literals: each variant's printed literal is accepted by the reader for that same variant and for no other",
    "X8": "sentinels: the spelling of an absent optional value is the same literal on both sides and is not a valid number; booleans are read by matching exactly the two literals Display prints",
    "X9": "list structure: opening literal, joiner and closing bracket written are the ones the reader strips / splits on; elements are parsed with the element type's own parser",
    "X0": "coverage: every codec type the property lists has both a Display writer table and a FromStr reader table",
}

INT_TYS = {"u8", "u16", "u32", "u64", "u128", "usize", "i8", "i16", "i32", "i64", "i128", "isize"}
LISTED = ["OrderType", "OrderUpdate", "OrderId", "Side", "TimeInForce", "PegReferenceType", "Transaction", "TransactionList",
          "MatchResult", "PriceLevel", "PriceLevelSnapshot", "PriceLevelStatistics", "OrderQueue"]


def adt_of(db, name):
    for d, a in db.adts.items():
        if d.split("::")[-1] == name:
            return a
    return None


def field_types(adt, variant=None):
    for v in adt["variants"]:
        if variant is None or v["name"] == variant:
            return {f["name"]: f["ty"] for f in v["fields"]}
    return {}


def is_unit_enum(db, tyname):
    a = adt_of(db, tyname.split("::")[-1])
    return a is not None and a["kind"] == "enum" and all(not v["fields"] for v in a["variants"])


def sep_safe(db, W, ty, extra=""):
    """(ok, why) for the textual alphabet of a printed type"""
    t = ty.replace(" ", "")
    if t in INT_TYS or t == "bool":
        return True, "std integer/bool"
    base = strip_generics(t).split("::")[-1]
    if t.startswith("std::sync::atomic::Atomic<") or t.startswith("core::sync::atomic::Atomic<"):
        return True, "atomic integer"
    if base in ("Uuid", "Ulid"):
        return True, "hex/Crockford id (trusted)"
    if t.startswith("std::option::Option<") and t[len("std::option::Option<"):-1] in INT_TYS:
        return True, "optional integer with sentinel"
    if base == "OrderId":
        return True, "uuid/ulid passthrough"
    lits = W.literals(base)
    if lits:
        bad = [l for l in lits if set(l) & (T.SEPARATORS | set(extra))]
        a = adt_of(db, base)
        payload_ok = True
        if a is not None:
            for v in a["variants"]:
                for f in v["fields"]:
                    if f["ty"].replace(" ", "") not in INT_TYS:
                        payload_ok = False
        return (not bad and payload_ok), ("crate enum with literals %s" % lits if not bad else "literal %r contains a separator" % bad[0])
    return False, "type %s is not known to avoid the separators" % ty


def _check_one(ctx, chk, db, W, ty):
    """the agreement rules for one listed type; False when a table is missing"""
    try:
        fb = db.method(ty, "from_str", trait="FromStr")
    except AnchorError:
        chk.fail("X0", ty + ":reader", "", "no FromStr impl for %s" % ty)
        return False
    if ty not in W.by_type:
        chk.fail("X0", ty + ":writer", "", "no Display writer table for %s" % ty)
        return False
    paths, allres = T.reader_paths(ctx, fb)
    chk.stats.setdefault("reader_paths", {})[ty] = len(paths)
    if not chk.require(len(paths) >= 1, "X0", ty + ":ok-paths", fb.span, "parser of %s has no Ok path" % ty):
        return True
    ents = W.by_type[ty]
    a = adt_of(db, ty)
    if ty in ("OrderType", "OrderUpdate", "Transaction", "PriceLevelSnapshot", "PriceLevelStatistics"):
        check_kv(ctx, chk, db, W, ty, a, ents, paths, fb)
    elif ty in ("Side", "TimeInForce", "PegReferenceType"):
        check_unit_enum(ctx, chk, db, W, ty, a, ents, paths, fb)
    elif ty == "OrderId":
        check_order_id(ctx, chk, db, W, ents, paths, fb)
    elif ty == "TransactionList":
        check_list(ctx, chk, db, W, ty, ents, paths, fb, elem="Transaction")
    elif ty == "OrderQueue":
        check_queue(ctx, chk, db, W, ents, fb)
    elif ty == "PriceLevel":
        check_level(ctx, chk, db, W, ents, fb)
    elif ty == "MatchResult":
        check_match_result(ctx, chk, db, W, a, ents, paths, allres, fb)
    if ty in ("TransactionList", "OrderQueue", "PriceLevel", "MatchResult"):
        check_empty_list(ctx, chk, ty, allres, fb)
    return True


def run(ctx, chk):
    for k, v in RULES.items():
        chk.rule(k, v)
    chk.explanation = (
        "Engine E3: writer tables are read from the expanded AST's format_args! templates of each Display impl (tag, "
        "keys, feeding fields, format trait/options, sentinels, joiners); reader tables from the term provenance (E1) of "
        "each field of the value every FromStr parser returns (HashMap::get key literal -> conversion -> field) and from "
        "the literal comparisons on its paths. The two tables of each type must agree (X1-X9). Equality of "
        "parse(print(v)) with v then rests on std's Display/parse being inverse for integers, bool, Uuid and Ulid "
        "(trusted). No value is printed or parsed.")
    chk.assumptions = ["std integer/bool Display and FromStr are inverse; uuid/ulid Display and parsing are inverse",
                       "control flow of the hand-written scanners is covered by C18 (totality) and by the key/slot binding checked here"]
    chk.not_decided = ["full control-flow correctness of MatchResult's nested scanner beyond tag/key/slot/bracket agreement"]
    db = ctx.db
    W = T.Writers(db, ctx)
    covered = []
    for ty in LISTED:
        if _check_one(ctx, chk, db, W, ty):
            covered.append(ty)
    chk.stats["types"] = covered
    chk.require(len(covered) == len(LISTED), "X0", "all-types", "", "covered %s" % covered)
    chk.require(chk.stats.get("list_splits", 0) >= 1, "X0", "list-splits-seen", "",
                "no list reader splits its body with str::split (the empty-list rule X9 matched nothing; 1 site confirmed by hand on the pinned tree)")


SPLITS = ("core::str::split", "core::str::rsplit", "core::str::splitn", "core::str::rsplitn", "core::str::split_inclusive")


def _related(a, b):
    return a == b or any(x == b for x in subterms(a)) or any(x == a for x in subterms(b))


def _filtered_downstream(ctx, allres, closure_name):
    """is the adapter fed by this closure followed by `.filter(|p| !p.is_empty())` in the same iterator chain?"""
    for r in allres:
        for e2 in r.trace:
            for t in (tuple(e2[2]) if len(e2) > 2 and isinstance(e2[2], tuple) else ()) + ((e2[3],) if len(e2) > 3 else ()):
                for x in subterms(t):
                    if isinstance(x, tuple) and x and x[0] == "call" and isinstance(x[1], str) and x[1].endswith("::filter") and len(x[2]) == 2 \
                            and any(isinstance(y, tuple) and y and y[0] == "agg" and y[1] == closure_name for y in subterms(x[2][0])):
                        clo = x[2][1]
                        if isinstance(clo, tuple) and clo[0] == "agg" and isinstance(clo[1], str) and clo[1].startswith("closure:"):
                            cb = ctx.db.bodies.get(clo[1][len("closure:"):])
                            if cb is not None and any((bt["term"].get("callee") or {}).get("path", "").endswith("::is_empty")
                                                      for bt in cb.blocks if bt["term"]["k"] == "call"):
                                return True
    return False


def check_empty_list(ctx, chk, ty, allres, fb):
    """X9 (empty list): the writers print nothing between the brackets for an empty list, `"".split(sep)` yields one
    empty piece and every element parser rejects the empty string - so a list reader that cuts its body with
    str::split on the list joiner must do so only where the body is known to be non-empty, or drop the empty pieces
    (`.filter(|p| !p.is_empty())`)."""
    seen = {}
    for r in allres:
        for i, e in enumerate(r.trace):
            if e[0] != "call" or e[1] not in SPLITS or len(e) < 8:
                continue
            args = e[2]
            pat = args[-1] if e[1] in ("core::str::split", "core::str::rsplit", "core::str::split_inclusive") else (args[2] if len(args) > 2 else None)
            patc = chr(pat[1]) if is_int(pat) and 0 <= pat[1] < 0x110000 else lit_of(pat)
            if patc != ",":
                continue        # not the list joiner (key=value parts, tag prefixes, ...)
            recv = args[0]
            guarded = False
            for a, pol in r.facts.order[:e[7]]:
                if a[0] == "truth" and pol is False and isinstance(a[1], tuple) and a[1][0] == "call" and a[1][1].endswith("::is_empty") \
                        and _related(a[1][2][0], recv):
                    guarded = True
                if a[0] == "lt" and pol is True and a[1] == Int(0) and isinstance(a[2], tuple) and a[2][0] == "strlen" and _related(a[2][1], recv):
                    guarded = True
                if a[0] == "eq" and pol is False and (lit_of(a[1]) == "" or lit_of(a[2]) == "") and (_related(a[1], recv) or _related(a[2], recv)):
                    guarded = True
            if not guarded:
                # the pieces are filtered for emptiness further down the iterator chain
                val = e[3]
                for e2 in r.trace[i + 1:]:
                    for t in (tuple(e2[2]) if len(e2) > 2 and isinstance(e2[2], tuple) else ()) + ((e2[3],) if len(e2) > 3 else ()):
                        for x in subterms(t):
                            if isinstance(x, tuple) and x and x[0] == "call" and isinstance(x[1], str) and x[1].endswith("::filter") and len(x[2]) == 2 \
                                    and any(y == val for y in subterms(x[2][0])):
                                clo = x[2][1]
                                if isinstance(clo, tuple) and clo[0] == "agg" and isinstance(clo[1], str) and clo[1].startswith("closure:"):
                                    cb = ctx.db.bodies.get(clo[1][len("closure:"):])
                                    if cb is not None and any(
                                            (bt["term"].get("callee") or {}).get("path", "").endswith("::is_empty")
                                            for bt in cb.blocks if bt["term"]["k"] == "call"):
                                        guarded = True
            k = (e[5])
            seen[k] = seen.get(k, True) and guarded
    # closures handed to an opaque iterator adapter (`.flat_map(|body| body.split(','))`) are never entered on the walk
    # above: walk them on their own; their pieces count as guarded only when the chain filters empty pieces afterwards
    entered = set()
    for r in allres:
        for e in r.trace:
            site = e[4] if len(e) > 4 and isinstance(e[4], tuple) else ()
            for fr_ in site:
                if isinstance(fr_, tuple) and fr_ and isinstance(fr_[0], str):
                    entered.add(fr_[0])
    for d in sorted(T.helpers_of(ctx, fb)):
        bd = ctx.db.bodies.get(d)
        if bd is None or bd.kind != "Closure" or d in entered:
            continue
        try:
            sub = ctx.walker(max_depth=2).walk(bd)
        except Exception:
            continue
        for r in sub:
            for e in r.trace:
                if e[0] != "call" or e[1] not in SPLITS or len(e) < 8:
                    continue
                args = e[2]
                pat = args[-1] if e[1] in ("core::str::split", "core::str::rsplit", "core::str::split_inclusive") else (args[2] if len(args) > 2 else None)
                patc = chr(pat[1]) if is_int(pat) and 0 <= pat[1] < 0x110000 else lit_of(pat)
                if patc != ",":
                    continue
                guarded = any(a[0] == "truth" and pol is False and isinstance(a[1], tuple) and a[1][0] == "call" and a[1][1].endswith("::is_empty")
                              for a, pol in r.facts.order[:e[7]])
                if not guarded:
                    guarded = _filtered_downstream(ctx, allres, ("closure:" + d))
                seen[e[5]] = seen.get(e[5], True) and guarded
    chk.stats["list_splits"] = chk.stats.get("list_splits", 0) + len(seen)
    for span, ok in sorted(seen.items()):
        chk.require(ok, "X9", "%s:empty-list" % ty, span,
                    "the list body is cut with str::split(',') on a path where it may be empty and the empty piece is not dropped: "
                    "the printed form of an empty list (nothing between the brackets) reaches the element parser as \"\" and is rejected")


# ------------------------------------------------------------------------------------------ key=value types

MIRW = {}


def mir_field(mir_paths, ai, ftys):
    """(field, idiom) of placeholder argument `ai` from the MIR of Display::fmt, or (None, None)"""
    rs = [args[ai] for facts, args in mir_paths if ai < len(args) and args[ai] is not None]
    if not rs:
        return None, None
    fields = {r["field"] for r in rs if r["field"] is not None}
    kinds = {r["kind"] for r in rs}
    if kinds == {"display"} and len(fields) == 1:
        return fields.pop(), "display"
    if kinds == {"debug-upper"} and len(fields) == 1:
        return fields.pop(), "debug-upper"
    if kinds <= {"display", "literal"} and len(fields) == 1:
        # optional value: a literal on the None path, the payload's Display on the Some path
        f = next(iter(fields))
        lits = {r["literal"] for r in rs if r["kind"] == "literal"}
        if len(lits) == 1 and "Option" in ftys.get(f, ""):
            return f, "option-sentinel:" + lits.pop()
    if kinds == {"literal"}:
        # a helper mapped an enum field to literals: recover field and variant from the path facts
        table = {}
        field = None
        for facts, args in mir_paths:
            if ai >= len(args) or args[ai] is None:
                continue
            for atom, pol in facts.order:
                if atom[0] == "variant":
                    t = atom[1]
                    from ..tables import _self_field_places
                    pl = _self_field_places(t) if isinstance(t, tuple) else []
                    for v, fname, _ in pl:
                        if fname in ftys and fname != field and field is None:
                            field = fname
                        if fname == field:
                            table.setdefault(atom[2], set()).add(args[ai]["literal"])
        if field is not None and all(len(v) == 1 for v in table.values()):
            return field, "enum-literals:" + ";".join("%s=%s" % (k, next(iter(v))) for k, v in sorted(table.items()))
    return None, None


def check_kv(ctx, chk, db, W, ty, adt, ents, paths, fb):
    is_enum = adt["kind"] == "enum"
    if ty not in MIRW:
        MIRW[ty] = T.mir_writer_args(ctx, ty)
    lit_seen = {}
    try:
        _check_kv(ctx, chk, db, W, ty, adt, ents, paths, fb, is_enum, lit_seen)
    finally:
        # X7 exhaustiveness: a field read by matching literals must accept every variant its type can print
        for (key, k, base, site), seen in sorted(lit_seen.items()):
            a2 = adt_of(db, base)
            if a2 is None:
                continue
            allv = {v["name"] for v in a2["variants"]}
            chk.require(seen >= allv, "X7", "%s:%s:exhaustive" % (key, k), site,
                        "key %s of %s is read by literal match; %s::%s can be written but no parser path accepts it" % (
                            k, key, base, "/".join(sorted(allv - seen))))


def _check_kv(ctx, chk, db, W, ty, adt, ents, paths, fb, is_enum, lit_seen):
    # one table per match arm (per type for structs): consecutive write! calls of the same arm are one output
    # (`write!(f, "T:a={};b={}", ..)?; write!(f, ";c={}", ..)`)
    groups = []
    for e in ents:
        if groups and groups[-1][0].arm == e.arm:
            groups[-1].append(e)
        else:
            groups.append([e])
    for grp in groups:
        e = grp[0]
        variant = T.arm_variant(e.arm) if is_enum else None
        ftys = field_types(adt, variant)
        key = "%s%s" % (ty, ("::" + variant) if variant else "")
        tag = e.template.split(":", 1)[0] if ":" in e.template else None
        wmap = {}
        for e2 in grp:
            bind = T.arm_bindings(e2.arm)
            mir_paths = MIRW.get(ty, {}).get(e2.callsite, [])
            for k, ai, trait, default, prev in e2.placeholders():
                field, idiom = mir_field(mir_paths, ai, ftys)
                if field is None:
                    field, idiom = T.arg_field(e2.args[ai], bind) if ai < len(e2.args) else (None, "missing-arg")
                if k is None or field is None:
                    chk.fail("X2", key + ":writer-shape", e2.callsite, "cannot read key/field of placeholder after %r (argument %s)" % (prev, e2.args[ai][:60] if ai < len(e2.args) else "?"), undecided=True)
                    continue
                if k in wmap:
                    chk.fail("X2", key + ":duplicate-key:" + k, e2.callsite, "key %s is written twice" % k)
                wmap[k] = (field, idiom, trait, default)
        rp = [p for p in paths if (p.variant == variant if is_enum else True)]
        if not chk.require(len(rp) >= 1, "X1", key + ":reader-builds-variant", fb.span, "the parser never returns %s" % key):
            continue
        for p in rp:
            # X1
            lits = [l for l, _ in p.eq_true]
            ok_tag = tag is not None and (tag in lits or (tag + ":") in p.prefixes)
            chk.require(ok_tag, "X1", key, e.callsite, "Display writes the tag %r but the parser path building %s matches %s" % (tag, key, lits + p.prefixes), describe_path(p.r))
            # reader map field -> keys
            rmap = {}
            for f, t in p.fields.items():
                ks = p.keys_of(t)
                if not ks:
                    sent = [v[1].split(":", 1)[1] for v in wmap.values() if v[0] == f and v[1].startswith("option-sentinel:")]
                    ks = literal_match_keys(db, W, p, t, ftys.get(f, ""), sent[0] if sent else None)
                if ks:
                    rmap[f] = ks
            rkeys = set(k for ks in rmap.values() for k in ks)
            chk.require(set(wmap) == rkeys, "X2", key, e.callsite,
                        "keys written %s vs keys read %s" % (sorted(wmap), sorted(str(k) for k in rkeys)), describe_path(p.r))
            for k, (field, idiom, trait, default) in wmap.items():
                got = rmap.get(field)
                chk.require(got == [k], "X3", "%s:%s" % (key, k), e.callsite,
                            "key %s is written from field %s, but the parser fills field %s from key(s) %s" % (k, field, field, got), describe_path(p.r))
                fty = ftys.get(field)
                if fty is None:
                    chk.fail("X3", "%s:%s:no-field" % (key, k), e.callsite, "writer argument %s is not a field of %s" % (field, key))
                    continue
                term = p.fields.get(field)
                calls = [c.split("::")[-1] for c in p.calls_of(term)]
                casts = [s for s in subterms(term) if isinstance(s, tuple) and s and s[0] == "cast"]
                chk.require(not casts, "X4", "%s:%s:cast" % (key, k), e.callsite, "the value read for %s is cast (%s)" % (k, short(casts[0])[:80] if casts else ""), describe_path(p.r))
                t0 = fty.replace(" ", "")
                # ---- X4 format + conversion
                if idiom == "display":
                    chk.require(trait == "Display" and default, "X4", "%s:%s:format" % (key, k), e.callsite,
                                "key %s is written with {:%s} / non-default options, the parser expects the plain Display form" % (k, trait))
                    if t0 in INT_TYS or t0.startswith("std::sync::atomic::Atomic<"):
                        chk.require("parse" in calls, "X4", "%s:%s:conv" % (key, k), e.callsite, "integer field %s is not read with str::parse (%s)" % (field, calls[:4]), describe_path(p.r))
                    elif t0 == "bool":
                        val = term
                        lits2 = [l for l, o in p.eq_true]
                        okb = ("parse" in calls) or (is_int(val) and (("true" in lits2) if val[1] == 1 else ("false" in lits2)))
                        chk.require(okb, "X8", "%s:%s:bool" % (key, k), e.callsite, "bool field %s is read as %s under literals %s" % (field, short(val), lits2), describe_path(p.r))
                    else:
                        base = strip_generics(t0).split("::")[-1]
                        lit_match = isinstance(term, tuple) and term[0] == "agg"
                        if lit_match:
                            # literal match: the accepted literal must be what the field type's Display prints for that variant
                            wl = {T.arm_variant(x.arm): x.literal_text() for x in W.by_type.get(base, [])}
                            lits2 = [l for l, o in p.eq_true]
                            lit_seen.setdefault((key, k, base, e.callsite), set()).add(term[2])
                            chk.require(wl.get(term[2]) in lits2, "X7", "%s:%s:%s" % (key, k, term[2]), e.callsite,
                                        "%s::%s prints %r but this path accepted %s" % (base, term[2], wl.get(term[2]), lits2), describe_path(p.r))
                        else:
                            chk.require(own_parser(calls) and direct_own_parser(term, base), "X4", "%s:%s:conv" % (key, k), e.callsite,
                                        "field %s of type %s is not read with its own parser (%s)" % (field, base, p.calls_of(term)[:4]), describe_path(p.r))
                elif idiom == "debug-upper":
                    base = strip_generics(t0).split("::")[-1]
                    chk.require(is_unit_enum(db, base), "X4", "%s:%s:debug-idiom" % (key, k), e.callsite, "Debug+to_uppercase used for non unit-enum %s" % base)
                    a2 = adt_of(db, base)
                    rb = ctx.db.method(base, "from_str", trait="FromStr")
                    rps, _ = T.reader_paths(ctx, rb)
                    acc = {q.variant: [l for l, _ in q.eq_true] for q in rps}
                    up = any(q.uppercases() for q in rps)
                    for v in (a2["variants"] if a2 else []):
                        printed = v["name"].upper()
                        chk.require(printed in acc.get(v["name"], []), "X7", "%s:%s:%s" % (key, k, v["name"]), e.callsite,
                                    "%s::%s is written as %r (Debug upper-cased) but %s::from_str accepts %s for it" % (base, v["name"], printed, base, acc.get(v["name"])))
                    chk.require("from_str" in calls, "X4", "%s:%s:conv" % (key, k), e.callsite, "field %s not read with %s::from_str" % (field, base))
                elif idiom.startswith("enum-literals:"):
                    base = strip_generics(t0).split("::")[-1]
                    table = dict(x.split("=", 1) for x in idiom.split(":", 1)[1].split(";") if "=" in x)
                    chk.require(trait == "Display" and default, "X4", "%s:%s:format" % (key, k), e.callsite, "key %s written with {:%s}" % (k, trait))
                    rb = ctx.db.method(base, "from_str", trait="FromStr")
                    rps, _ = T.reader_paths(ctx, rb)
                    acc = {}
                    for q in rps:
                        acc.setdefault(q.variant, set()).update(l for l, _ in q.eq_true)
                    up = any(q.uppercases() for q in rps)
                    a2 = adt_of(db, base)
                    for v in (a2["variants"] if a2 else []):
                        printed = table.get(v["name"])
                        okp = printed is not None and ((printed.upper() if up else printed) in acc.get(v["name"], set()))
                        chk.require(okp, "X7", "%s:%s:%s" % (key, k, v["name"]), e.callsite,
                                    "%s::%s is written as %r but %s::from_str accepts %s for it" % (base, v["name"], printed, base, sorted(acc.get(v["name"], []))))
                    chk.require("from_str" in calls, "X4", "%s:%s:conv" % (key, k), e.callsite, "field %s not read with %s::from_str" % (field, base))
                elif idiom.startswith("option-sentinel:"):
                    sent = idiom.split(":", 1)[1]
                    chk.require(not sent.isdigit(), "X8", "%s:%s:sentinel-not-number" % (key, k), e.callsite, "sentinel %r parses as a number" % sent)
                    v = term[2] if isinstance(term, tuple) and term[0] == "agg" else None
                    lits_t = [l for l, o in p.eq_true]
                    lits_f = [l for l, o in p.eq_false]
                    if v == "None":
                        chk.require(sent in lits_t, "X8", "%s:%s:sentinel" % (key, k), e.callsite,
                                    "absent value is written as %r but the parser yields None after matching %s" % (sent, lits_t), describe_path(p.r))
                    elif v == "Some":
                        chk.require(sent in lits_f and "parse" in calls, "X8", "%s:%s:some" % (key, k), e.callsite,
                                    "present value must be parsed after excluding the sentinel %r (excluded %s, calls %s)" % (sent, lits_f, calls[:3]), describe_path(p.r))
                    else:
                        chk.fail("X8", "%s:%s:shape" % (key, k), e.callsite, "optional field read as %s" % short(term)[:80], undecided=True)
                else:
                    chk.fail("X4", "%s:%s:idiom" % (key, k), e.callsite, "unrecognised writer expression %s" % idiom, undecided=True)
                ok5, why5 = sep_safe(db, W, fty)
                chk.require(ok5, "X5", "%s:%s" % (key, k), e.callsite, "field %s: %s" % (field, why5))
            if len(chk.samples) < 10:
                chk.sample({"type": key, "tag": tag, "writer": {k: v[0] for k, v in wmap.items()}, "reader": rmap})
    # every variant has a writer arm
    if is_enum:
        arms = {T.arm_variant(e.arm) for e in ents}
        for v in adt["variants"]:
            chk.require(v["name"] in arms, "X0", "%s::%s:writer-arm" % (ty, v["name"]), "", "no Display arm for variant %s" % v["name"])


def literal_match_keys(db, W, p, term, fty, sentinel=None):
    """keys of a field whose value is decided by comparing the looked-up string with literals (enum by literal
    match, bool by "true"/"false", None by the sentinel): taken from the equality facts of the path"""
    want = None
    if isinstance(term, tuple) and term[0] == "agg" and term[2] not in (None, "None", "Some"):
        base = strip_generics(fty.replace(" ", "")).split("::")[-1]
        wl = {T.arm_variant(x.arm): x.literal_text() for x in W.by_type.get(base, [])}
        want = {wl.get(term[2])}
    elif is_int(term) and fty.replace(" ", "") == "bool":
        want = {"true"} if term[1] == 1 else {"false"}
    elif isinstance(term, tuple) and term[0] == "agg" and term[2] == "None" and "Option" in fty:
        want = {sentinel} if sentinel is not None else None
    else:
        return []
    out = []
    for l, other in p.eq_true:
        ks = p.keys_of(other)
        if ks and (want is None or l in want):
            for k in ks:
                if k not in out:
                    out.append(k)
    return out


# ------------------------------------------------------------------------------------------ unit enums

def check_unit_enum(ctx, chk, db, W, ty, adt, ents, paths, fb):
    acc = {}
    for p in paths:
        acc.setdefault(p.variant, []).append(p)
    up = any(p.uppercases() for p in paths)
    seen_lits = {}
    for e in ents:
        v = T.arm_variant(e.arm)
        phs = e.placeholders()
        lit = e.literal_text()
        key = "%s::%s" % (ty, v)
        rp = acc.get(v, [])
        if not chk.require(bool(rp), "X7", key + ":reader-builds-variant", e.callsite, "the parser never returns %s" % key):
            continue
        if up:
            chk.require(lit.upper() == lit, "X6", key, e.callsite, "the parser upper-cases its input but Display writes %r" % lit)
        if not phs:
            ok = any(lit in [l for l, _ in p.eq_true] for p in rp)
            chk.require(ok, "X7", key, e.callsite, "Display writes %r; the parser accepts %s for this variant" % (lit, sorted({l for p in rp for l, _ in p.eq_true})))
            seen_lits.setdefault(lit, []).append(v)
        else:
            # payload variant, e.g. GTD-{expiry}
            ok = any(lit in p.prefixes for p in rp)
            chk.require(ok, "X1", key, e.callsite, "Display writes prefix %r; the parser recognises %s" % (lit, sorted({x for p in rp for x in p.prefixes})))
            ftys = field_types(adt, v)
            for k, ai, trait, default, prev in phs:
                chk.require(trait == "Display" and default, "X4", key + ":format", e.callsite, "payload written with {:%s}" % trait)
                for f, fty in ftys.items():
                    t0 = fty.replace(" ", "")
                    chk.require(t0 in INT_TYS and t0.startswith("u"), "X5", key + ":payload-unsigned", e.callsite,
                                "payload type %s may print the separator '-' used by the parser's split" % fty)
                for p in rp:
                    for f, t in p.fields.items():
                        calls = [c.split("::")[-1] for c in p.calls_of(t)]
                        chk.require("parse" in calls, "X4", key + ":conv", e.callsite, "payload not read with str::parse (%s)" % calls[:4])
                        casts = [x for x in subterms(t) if isinstance(x, tuple) and x and x[0] == "cast"]
                        chk.require(not casts, "X4", key + ":cast", e.callsite,
                                    "the payload is parsed as another type and cast (%s): values outside that type's range are rejected or altered" % (short(casts[0])[:80] if casts else ""),
                                    describe_path(p.r))
            # the separator inside the literal must be the one the parser splits on
            strs, chars = T.str_and_char_consts(db, fb, T.helpers_of(ctx, fb))
            sep = lit[-1] if lit else ""
            chk.require(sep in chars or any(sep in s for s in strs), "X9", key + ":separator", e.callsite, "separator %r is not used by the parser" % sep)
    for lit, vs in seen_lits.items():
        chk.require(len(vs) == 1, "X7", "%s:ambiguous:%s" % (ty, lit), "", "literal %r is written for %s" % (lit, vs))
    # no other variant accepts a literal written for this one
    for e in ents:
        v = T.arm_variant(e.arm)
        lit = e.literal_text()
        if e.placeholders():
            continue
        for v2, ps in acc.items():
            if v2 != v:
                chk.require(not any(lit in [l for l, _ in p.eq_true] for p in ps), "X7", "%s::%s:also-%s" % (ty, v, v2), e.callsite,
                            "literal %r written for %s is accepted as %s" % (lit, v, v2))
    for v in adt["variants"]:
        chk.require(v["name"] in {T.arm_variant(e.arm) for e in ents}, "X0", "%s::%s:writer-arm" % (ty, v["name"]), "", "no Display arm")


def check_order_id(ctx, chk, db, W, ents, paths, fb):
    inp = ("ref", ("pl", ("obj", ("param", 1)), ()), False)
    want = {"Uuid": ("from_str", "uuid"), "Ulid": ("from_string", "ulid")}
    for e in ents:
        v = T.arm_variant(e.arm)
        phs = e.placeholders()
        ok = len(phs) == 1 and e.literal_text() == "" and phs[0][2] == "Display" and phs[0][3]
        chk.require(ok, "X4", "OrderId::%s:passthrough" % v, e.callsite, "OrderId::%s is written as %r" % (v, e.template))
    seen = set()
    for p in paths:
        v = p.variant
        t = p.fields.get("0")
        fn, crate = want.get(v, (None, None))
        okp = isinstance(t, tuple) and t[0] == "field" and t[2] == "Ok" and isinstance(t[1], tuple) and t[1][0] == "call" \
            and t[1][1].split("::")[-1] == fn and crate in t[1][1] and len(t[1][2]) == 1 and t[1][2][0] == inp
        chk.require(okp, "X3", "OrderId::%s:parser" % v, fb.span,
                    "OrderId::%s is built from %s; expected the %s parser applied to the whole input" % (v, short(t)[:120], crate), describe_path(p.r))
        seen.add(v)
    chk.require(seen == {"Uuid", "Ulid"}, "X0", "OrderId:variants", fb.span, "parser builds %s" % sorted(str(x) for x in seen))
    # order of attempts: the uuid form is tried before the ulid form, nothing in between
    for p in paths:
        if p.variant == "Ulid":
            fails = [a for a, pol in p.r.facts.order if a[0] == "variant" and a[2] == "Err"]
            chk.require(len(fails) == 1 and "uuid" in repr(fails[0][1]), "X7", "OrderId:attempt-order", fb.span,
                        "before accepting a ULID the parser rejected %s" % [short(a[1])[:60] for a in fails], describe_path(p.r))
        if p.variant == "Uuid":
            fails = [a for a, pol in p.r.facts.order if a[0] == "variant" and a[2] == "Err"]
            chk.require(not fails, "X7", "OrderId:uuid-first", fb.span, "a UUID is only accepted after another parser failed")


# ------------------------------------------------------------------------------------------ lists and composites

def lits_of_entries(ents):
    return [e.literal_text() for e in ents if not e.placeholders()], [e for e in ents if e.placeholders()]


def check_list(ctx, chk, db, W, ty, ents, paths, fb, elem):
    plain, withph = lits_of_entries(ents)
    opener = [l for l in plain if l.endswith("[")]
    closer = [l for l in plain if l == "]"]
    joiner = [l for l in plain if l not in opener and l not in closer]
    # element templates: the bare `{}`, or the joiner attached to the element (`",{}"` for every element but the first,
    # which then needs its own bare template - `split_first` style)
    attached = sorted({e.literal_text() for e in withph if e.literal_text() and len(e.placeholders()) == 1 and e.template.startswith(e.literal_text())})
    bare = [e for e in withph if not e.literal_text() and len(e.placeholders()) == 1]
    if not joiner and len(attached) == 1 and bare and len(withph) == len(bare) + len([e for e in withph if e.literal_text() == attached[0]]):
        joiner = list(attached)
        shape_ok = len(opener) == 1 and len(closer) == 1 and len(bare) == 1 and len(withph) == 2
    else:
        shape_ok = len(opener) == 1 and len(closer) == 1 and len(joiner) == 1 and len(withph) == 1
    chk.require(shape_ok, "X9", ty + ":writer-shape", ents[0].callsite,
                "list writer literals: %s, element templates %s" % (plain, [e.template for e in withph]))
    if not (opener and closer and joiner):
        return
    strs, chars = T.str_and_char_consts(db, fb, T.helpers_of(ctx, fb))
    pre = {x for p in paths for x in p.prefixes}
    suf = {x for p in paths for x in p.suffixes}
    chk.require(opener[0] in pre, "X1", ty, ents[0].callsite, "Display opens with %r, the parser requires prefix %s" % (opener[0], sorted(pre)))
    chk.require(closer[0] in suf, "X9", ty + ":close", ents[0].callsite, "Display closes with %r, the parser requires suffix %s" % (closer[0], sorted(suf)))
    chk.require(joiner[0] in chars or joiner[0] in strs, "X9", ty + ":joiner", ents[0].callsite, "Display joins with %r, not a separator of the parser (%s)" % (joiner[0], sorted(chars)))
    ext = ctx.cg.reach([fb.defp])
    eb = ctx.db.method(elem, "from_str", trait="FromStr")
    chk.require(eb.defp in ext, "X9", ty + ":element-parser", fb.span, "elements are not parsed with %s::from_str" % elem)
    elits = W.literals(elem)
    bad = [l for l in elits if set(l) & set(joiner[0] + "[]")]
    chk.require(not bad, "X5", ty + ":element-alphabet", ents[0].callsite, "element literal %r contains the joiner or a bracket" % (bad[0] if bad else ""))


def check_queue(ctx, chk, db, W, ents, fb):
    e = ents[0]
    phs = e.placeholders()
    ok = len(ents) == 1 and len(phs) == 1
    chk.require(ok, "X9", "OrderQueue:writer-shape", e.callsite, "template %r" % e.template)
    if not ok:
        return
    field, idiom = T.arg_field(e.args[phs[0][1]], {})
    opener = e.template.split("{")[0]
    closer = e.template.split("}")[-1]
    paths, allres = T.reader_paths(ctx, fb)
    pre = {x for p in paths for x in p.prefixes}
    suf = {x for p in paths for x in p.suffixes}
    strs, chars = T.str_and_char_consts(db, fb, T.helpers_of(ctx, fb))
    chk.require(opener in pre, "X1", "OrderQueue", e.callsite, "Display opens with %r, parser requires %s" % (opener, sorted(pre)))
    chk.require(closer in suf, "X9", "OrderQueue:close", e.callsite, "Display closes with %r, parser requires suffix %s" % (closer, sorted(suf)))
    j = T.list_joiner(db, ctx.db.method("OrderQueue", "fmt", trait="Display"), idiom)
    chk.require(j is not None and (j in chars or j in strs), "X9", "OrderQueue:joiner", e.callsite, "joiner %r vs parser separators %s" % (j, sorted(chars)))
    eb = ctx.db.method("OrderType", "from_str", trait="FromStr")
    chk.require(eb.defp in ctx.cg.reach([fb.defp]), "X9", "OrderQueue:element-parser", fb.span, "elements not parsed with OrderType::from_str")
    bad = [l for l in W.literals("OrderType") if set(l) & set((j or ",") + "[]")]
    chk.require(not bad, "X5", "OrderQueue:element-alphabet", e.callsite, "order literal %r contains the joiner or a bracket" % (bad[0] if bad else ""))
    # the listing printed is the queue's own listing
    chk.require(ctx.db.method("OrderQueue", "to_vec").defp in ctx.cg.reach([ctx.db.method("OrderQueue", "fmt", trait="Display").defp]),
                "X9", "OrderQueue:prints-listing", e.callsite, "Display does not print to_vec()")



def slots_by_key(fb, allres, names):
    """{key literal: {loop-carried Option<&str> locals assigned in the iteration that matched that literal}} for a parser
    that collects `key=value` parts into slot variables (`"price" => price_part = Some(value)`)"""
    slot_of_key = {}
    for r in allres:
        if r.kind != "backedge" or r.detail[1] != fb.defp:
            continue
        marks = [e for e in r.trace if e[0] == "loop" and e[3] == fb.defp]
        if not marks:
            continue
        key = marks[0][1]
        if "%s@bb%d" % (r.detail[1], r.detail[2]) != key:
            continue
        lits = [lit_of(a[1]) or lit_of(a[2]) for a, p in r.facts.order if a[0] == "eq" and p is True and (lit_of(a[1]) or lit_of(a[2]))]
        lits = [l for l in lits if l in names]
        if len(lits) != 1:
            continue
        fr = r.state.frames[0]
        for l, pre in marks[0][2].items():
            if not isinstance(l, int):
                continue    # loop-carried heap field, not a local
            ty = fr.body.locals[l]["ty"]
            if "Option<&" in ty and "str" in ty:
                nv = fr.locals.get(l)
                if nv != ("havoc", key, l):
                    slot_of_key.setdefault(lits[0], set()).add(l)
    return slot_of_key


def check_level(ctx, chk, db, W, ents, fb):
    # writer shape: one header template with the keyed scalars and `orders=[`, then the orders - either `{}` filled by a
    # joined string inside the header, or one `{}` element template per order with the joiner and the closing bracket
    # written as literals (write_str / write_char / write!)
    heads = [x for x in ents if "orders=[" in x.template]
    e = heads[0] if heads else ents[0]
    others = [x for x in ents if x is not e]
    elem = [x for x in others if len(x.placeholders()) == 1 and x.literal_text() == ""]
    lits = [x.literal_text() for x in others if not x.placeholders()]
    streamed = not e.template.endswith("]")
    chk.require(len(heads) == 1 and (not others or (streamed and len(elem) == 1 and len(others) - len(elem) == len(lits))),
                "X9", "PriceLevel:writer-shape", e.callsite, "%d templates: %s" % (len(ents), [x.template for x in ents]))
    phs = e.placeholders()
    wkeys = {}
    for k, ai, trait, default, prev in phs:
        field, idiom = T.arg_field(e.args[ai], {})
        wkeys[k] = (field, idiom, trait, default)
    tag = e.template.split(":", 1)[0] + ":"
    w = ctx.walker(max_depth=4)
    w.no_inline = lambda p, hs=T.helpers_of(ctx, fb): p not in hs
    res = w.walk(fb)
    oks = [r for r in res if r.kind == "return" and isinstance(r.value, tuple) and r.value[0] == "agg" and r.value[2] == "Ok"]
    chk.require(len(oks) >= 1, "X0", "PriceLevel:ok-paths", fb.span, "no Ok path")
    from .c10 import _const_str_arg
    rkeys = set()
    for d in ctx.cg.reach([fb.defp]):
        if not (d == fb.defp or d.startswith(fb.defp + "::")):
            continue
        bd = db.bodies[d]
        for bb, t in bd.calls():
            c = t["callee"]
            if c and c["name"] == "get" and "HashMap" in (c.get("impl_self") or "") and len(t["args"]) > 1:
                rkeys.add(_const_str_arg(bd, t["args"][1]))
    # slot-variable parsers: `"price" => price_part = Some(value)` instead of a map
    lslots = slots_by_key(fb, res, {"price", "orders", "visible_quantity", "hidden_quantity", "order_count"})
    used_slots = set()
    for r in oks:
        for ev in r.trace:
            if ev[0] == "call" and ev[1].endswith("PriceLevel::new"):
                used_slots |= {x[2] for x in subterms(ev[3][2][0]) if isinstance(x, tuple) and x[0] == "havoc" and len(x) == 3 and isinstance(x[2], int)}
    for k, ls in lslots.items():
        if k == "price" and not (ls & used_slots):
            continue
        rkeys.add(k)
    strs0, _chars0 = T.str_and_char_consts(db, fb, T.helpers_of(ctx, fb))
    if "orders=[" in strs0:
        rkeys.add("orders")      # the order list is located by searching for its `orders=[` opener (with or without a map entry for it)
    wkeyset = set(wkeys) | ({"orders"} if re.search(r"(?:^|[;:])orders=\[$", e.template) else set())
    chk.require(rkeys <= wkeyset and {"price", "orders"} <= rkeys, "X2", "PriceLevel", e.callsite,
                "keys written %s; keys the parser consults %s (content = price + orders)" % (sorted(wkeys), sorted(str(k) for k in rkeys)))
    for r in oks:
        pre = T.ReaderPath(r).prefixes
        chk.require(tag in pre, "X1", "PriceLevel", e.callsite, "Display writes tag %r, parser requires %s" % (tag, pre), describe_path(r))
        news = [ev for ev in r.trace if ev[0] == "call" and ev[1].endswith("PriceLevel::new")]
        okn = len(news) == 1
        if okn:
            ks = [lit_of(s[2][1]) for s in subterms(news[0][3][2][0]) if isinstance(s, tuple) and s[0] == "call" and s[1].endswith("HashMap::get")]
            if not ks:
                hv = {x[2] for x in subterms(news[0][3][2][0]) if isinstance(x, tuple) and x[0] == "havoc" and len(x) == 3 and isinstance(x[2], int)}
                ks = sorted(k for k, ls in lslots.items() if ls & hv)
            calls = [s[1].split("::")[-1] for s in subterms(news[0][3][2][0]) if isinstance(s, tuple) and s[0] == "call"]
            chk.require(ks == ["price"] and "parse" in calls, "X3", "PriceLevel:price", e.callsite, "the level's price is read from key(s) %s via %s" % (ks, calls[:3]), describe_path(r))
        chk.require(okn, "X3", "PriceLevel:new", fb.span, "%d PriceLevel::new calls on an Ok path" % len(news))
    chk.require(wkeys.get("price", (None,))[0] == "price", "X3", "PriceLevel:price-writer", e.callsite, "key price is written from %s" % (wkeys.get("price"),))
    for k in ("price", "visible_quantity", "hidden_quantity", "order_count"):
        if k in wkeys:
            chk.require(wkeys[k][2] == "Display" and wkeys[k][3], "X4", "PriceLevel:%s:format" % k, e.callsite, "key %s written with {:%s}" % (k, wkeys[k][2]))
    o = wkeys.get("orders")
    dfmt = ctx.db.method("PriceLevel", "fmt", trait="Display")
    if streamed:
        # literals written around the elements: exactly one joiner and the closing bracket
        wl = set(T.writer_joiners(db, dfmt)) | set(lits)
        closers = {x for x in wl if x == "]"}
        js = wl - closers
        j = next(iter(js)) if len(js) == 1 else None
        chk.require(len(closers) == 1, "X9", "PriceLevel:writer-brackets", e.callsite, "no closing bracket is written after the orders (literals %s)" % sorted(wl))
        if elem:
            ph = elem[0].placeholders()[0]
            chk.require(ph[2] == "Display" and ph[3], "X4", "PriceLevel:orders:format", elem[0].callsite, "orders written with {:%s}" % ph[2])
    else:
        j = T.list_joiner(db, dfmt, o[1] if o else None)
    strs, chars = T.str_and_char_consts(db, fb, T.helpers_of(ctx, fb))
    chk.require(j is not None and j in chars, "X9", "PriceLevel:joiner", e.callsite, "orders joined with %r; parser splits on %s" % (j, sorted(chars)))
    chk.require("orders=[" in strs and "]" in chars, "X9", "PriceLevel:brackets", e.callsite, "parser looks for %s / %s" % (sorted(s for s in strs if "[" in s), sorted(chars)))
    chk.require("orders=[" in e.template and (streamed or e.template.endswith("]")), "X9", "PriceLevel:writer-brackets", e.callsite, "template %r" % e.template)
    bad = [l for l in W.literals("OrderType") if set(l) & set((j or ",") + "[]()")]
    chk.require(not bad, "X5", "PriceLevel:element-alphabet", e.callsite, "order literal %r contains the joiner or a bracket" % (bad[0] if bad else ""))
    chk.require(ctx.db.method("OrderType", "from_str", trait="FromStr").defp in ctx.cg.reach([fb.defp]), "X9", "PriceLevel:element-parser", fb.span, "orders not parsed with OrderType::from_str")


def check_match_result(ctx, chk, db, W, adt, ents, paths, allres, fb):
    # writer: the concatenation of its write! templates
    tpl = "".join(e.template for e in ents)
    keyed = [(k, e, ai, trait, default) for e in ents for k, ai, trait, default, prev in e.placeholders() if k is not None]
    wmap = {}
    for k, e, ai, trait, default in keyed:
        field, idiom = T.arg_field(e.args[ai], {})
        wmap[k] = (field, trait, default)
    # list key (filled_order_ids=[ ... ])
    for e in ents:
        m = re.search(r"(?:^|[;:])([A-Za-z_][A-Za-z0-9_]*)=\[$", e.template)
        if m:
            wmap[m.group(1)] = ("filled_order_ids", "Display", True)
    tag = ents[0].template.split(":", 1)[0] + ":"
    strs, chars = T.str_and_char_consts(db, fb, T.helpers_of(ctx, fb))
    ftys = field_types(adt)
    chk.require(set(wmap) == set(ftys), "X2", "MatchResult:writer", ents[0].callsite, "keys written %s vs fields %s" % (sorted(wmap), sorted(ftys)))
    for k, (field, trait, default) in wmap.items():
        chk.require(field == k and trait == "Display" and default, "X3", "MatchResult:%s:writer" % k, ents[0].callsite, "key %s written from %s with {:%s}" % (k, field, trait))
        chk.require(k in strs, "X2", "MatchResult:%s:reader-knows-key" % k, fb.span, "the parser has no arm for key %r (its literals: %s)" % (k, sorted(s for s in strs if s.isidentifier())))
    extra = [s for s in strs if s.isidentifier() and s in ftys and s not in wmap]
    for p in paths:
        chk.require(tag in p.prefixes, "X1", "MatchResult", ents[0].callsite, "Display writes tag %r, parser requires %s" % (tag, p.prefixes), describe_path(p.r))
    # slot binding: key literal matched in an iteration -> loop-carried slot set -> field of the result built from that slot
    slot_of_key = slots_by_key(fb, allres, ftys)
    allslots = set(l for ls in slot_of_key.values() for l in ls)
    for f in ftys:
        used = set()
        calls = set()
        fcalls = set()
        for p in paths:
            t = p.fields.get(f)
            fcalls |= set(p.calls_of(t))
            used |= {s[2] for s in subterms(t) if isinstance(s, tuple) and s[0] == "havoc" and len(s) == 3 and isinstance(s[2], int) and s[2] in allslots}
            calls |= {c.split("::")[-1] for c in p.calls_of(t)}
            for c in [x for x in subterms(t) if isinstance(x, tuple) and x and x[0] == "agg" and isinstance(x[1], str) and x[1].startswith("closure:")]:
                for d in ctx.cg.reach([c[1][len("closure:"):]]):
                    calls.add(d.split("::")[-1])
                    fcalls.add(d)
        keys = sorted(k for k, ls in slot_of_key.items() if ls & used)
        chk.require(keys == [f], "X3", "MatchResult:%s" % f, fb.span,
                    "field %s of the parsed result is built from the slot(s) filled by key(s) %s" % (f, keys))
        fty = ftys[f].replace(" ", "")
        if fty in INT_TYS or fty == "bool":
            chk.require("parse" in calls, "X4", "MatchResult:%s:conv" % f, fb.span, "%s not read with str::parse (%s)" % (f, sorted(calls)[:4]))
        else:
            chk.require(own_parser(calls) and typed_own_parser(fcalls, elem_base(fty)), "X4", "MatchResult:%s:conv" % f, fb.span,
                        "%s not read with its own parser (%s)" % (f, sorted(fcalls)[:6]))
    # brackets / joiner of the id list and the nested transaction list
    chk.require("[" in chars and "]" in chars or ("[" in "".join(strs) and "]" in "".join(strs)), "X9", "MatchResult:brackets", fb.span, "parser bracket constants %s" % sorted(chars))
    chk.require("," in chars or "," in strs, "X9", "MatchResult:joiner", fb.span, "parser does not split the id list on ','")
    chk.require("Transactions:[" in strs, "X9", "MatchResult:nested-list-prefix", fb.span, "parser does not look for the transaction list prefix")
    wl = W.literals("TransactionList")
    chk.require("Transactions:[" in wl, "X9", "MatchResult:nested-writer", ents[0].callsite, "TransactionList writes %s" % wl)
    chk.require(ctx.db.method("TransactionList", "from_str", trait="FromStr").defp in ctx.cg.reach([fb.defp]), "X9", "MatchResult:nested-parser", fb.span, "transactions not parsed with TransactionList::from_str")
    for f in ("order_id", "remaining_quantity", "is_complete"):
        ok5, why5 = sep_safe(db, W, ftys[f])
        chk.require(ok5, "X5", "MatchResult:%s" % f, ents[0].callsite, why5)


def check_order_id_text_pair(ctx, chk, rid):
    """the Display/FromStr pair of OrderId, checked under another property's rule id (OrderId's JSON form *is* its text
    form: Serialize writes to_string(), Deserialize reads through from_str)"""
    class Relabel:
        def __init__(self, chk, rid):
            self.chk, self.rid = chk, rid

        def require(self, cond, rule, key, site="", detail="", path=None):
            return self.chk.require(cond, self.rid, "text:" + rule + ":" + key, site, detail, path)

        def fail(self, rule, key, site="", detail="", path=None, undecided=False):
            return self.chk.fail(self.rid, "text:" + rule + ":" + key, site, detail, path, undecided=undecided)

        def ok(self, rule, key, site="", detail=""):
            return self.chk.ok(self.rid, "text:" + rule + ":" + key, site, detail)

        def __getattr__(self, n):
            return getattr(self.chk, n)
    db = ctx.db
    W = T.Writers(db, ctx)
    fb = db.method("OrderId", "from_str", trait="FromStr")
    paths, allres = T.reader_paths(ctx, fb)
    rc = Relabel(chk, rid)
    if not rc.require(len(paths) >= 1 and "OrderId" in W.by_type, "X0", "OrderId:tables", fb.span, "no reader/writer table for OrderId"):
        return
    check_order_id(ctx, rc, db, W, W.by_type["OrderId"], paths, fb)


def check_level_text_pair(ctx, chk, rid):
    """the Display/FromStr pair of PriceLevel (keys, tag, order list structure incl. the empty list), checked under
    another property's rule id (C10: rebuilding a level from its text form always succeeds)"""
    from ..report import Relabel
    db = ctx.db
    W = T.Writers(db, ctx)
    fb = db.method("PriceLevel", "from_str", trait="FromStr")
    paths, allres = T.reader_paths(ctx, fb)
    rc = Relabel(chk, rid, "text:")
    if not rc.require(len(paths) >= 1 and "PriceLevel" in W.by_type, "X0", "PriceLevel:tables", fb.span, "no reader/writer table for PriceLevel"):
        return
    check_level(ctx, rc, db, W, W.by_type["PriceLevel"], fb)
    check_empty_list(ctx, rc, "PriceLevel", allres, fb)
    # the orders inside the level's text form: "the same set of orders field for field" needs the pairs of the order
    # type and of every type nested in it to agree as well
    for ty in ("OrderType", "OrderId", "Side", "TimeInForce", "PegReferenceType"):
        _check_one(ctx, rc, db, W, ty)
