"""C15 - statistics agree with the events."""
from ..level import LevelAnalysis, SELF
from ..effects import make_effect_fn
from ..terms import affine, prove_zero, short, Int, subterms
from ..common import describe_path
from .. import lvlrules as LR
from .c01 import segments
from .c06 import main_loop_info, remaining_local

RULES = {
    "H1": "pairing: record_order_added exactly once on every path of add_order; record_order_removed exactly once on a path iff an order is taken and not re-inserted (cancel / price move), never otherwise (amend, not-found, error); record_execution exactly once per maker visit of match_order with the quantity remaining was lowered by (= the transaction quantity) and the level's price",
    "H2": "what the counters do: record_order_added/removed/execution only fetch_add on their own fields with (1), (1), (1, quantity, quantity*price); no load/store split of the four counters the property names; the getters load the field they name",
    "H3": "(thorough) no target of the workspace writes the pub atomic fields of PriceLevelStatistics outside statistics.rs",
    "H4": "one event, one record, also with many threads: an order is handed to exactly one caller (OrderQueue::pop / ::remove return the payload of their own DashMap::remove; nobody else touches the map or the tickets), so a removal or an execution cannot be recorded by two threads",
    "H0": "coverage",
    "H5": "every PriceLevel value is constructed with a statistics object of its own (not a clone of another level's shared handle)",
}

NAMED = {"orders_added", "orders_removed", "quantity_executed", "value_executed"}


def run(ctx, chk):
    for k, v in RULES.items():
        chk.rule(k, v)
    chk.explanation = (
        "Pairing rules over the MIR paths of the three mutators (E1: how many times, under which path facts and with "
        "which operand terms the statistics recorders are called) and a direct inspection of the recorder/getter bodies "
        "(which atomic, which operation, which operand). Lost updates under contention are excluded structurally: every "
        "update of the four named counters is a single fetch_add. Nothing is executed.")
    chk.assumptions = ["quantity*price does not overflow (property precondition)",
                       "callers do not write the pub atomic fields directly (checked for the repository's own targets in the thorough tier)"]
    L = LevelAnalysis(ctx)
    db = ctx.db
    # ---------------- H1 add_order
    b, res, _ = L.paths("add_order")
    n = 0
    for r in res:
        if r.kind != "return":
            continue
        n += 1
        ev = [e for e in r.trace if e[0] == "eff" and e[1].startswith("STAT.")]
        ok = len(ev) == 1 and ev[0][1] == "STAT.record_order_added" and L.self_field(ev[0][2][0]) == L.stats_field
        chk.require(ok, "H1", b.defp, b.span, "statistics calls on an add_order path: %s" % [e[1] for e in ev], describe_path(r))
    chk.require(n >= 7, "H0", b.defp, b.span, "%d return paths" % n)
    # ---------------- H1 update_order
    b, res, _ = L.paths("update_order")
    for r in res:
        if not LR.usable(chk, "H0", b.defp, b.span, r):
            continue
        if r.kind != "return":
            continue
        arm = LR.first_label(r)
        qev = L.queue_events(r.trace, r.facts)
        takes = [x for x in qev if x[0] in ("take", "rtake")]
        pushes = [x for x in qev if x[0] in ("push", "park", "rpush")]
        ev = [e for e in r.trace if e[0] == "eff" and e[1].startswith("STAT.")]
        want = 1 if (takes and not pushes) else 0
        ok = len(ev) == want and all(e[1] == "STAT.record_order_removed" and L.self_field(e[2][0]) == L.stats_field for e in ev)
        chk.require(ok, "H1", "%s:%s" % (b.defp, arm), b.span,
                    "%d statistics call(s) %s on a path where an order is %s" % (len(ev), [e[1] for e in ev],
                                                                               "removed" if want else ("amended" if takes else "not found / rejected")),
                    describe_path(r))
    # ---------------- H1 match_order
    b, res, _ = L.paths("match_order")
    fn = b.defp
    price_self = ("field", ("val", SELF), None, L.price_field)
    nvis = 0
    for r in res:
        if not LR.usable(chk, "H0", fn, b.span, r):
            continue
        mi, marker = main_loop_info(r, fn)
        if marker is None:
            continue
        loops = [i for i, e in enumerate(r.trace) if e[0] == "loop"]
        end = loops[1] if len(loops) > 1 else len(r.trace)
        seg = r.trace[mi + 1:end]
        ids = set(id(e) for e in seg)
        qev = [x for x in L.queue_events(r.trace, r.facts) if id(x[2]) in ids]
        takes = [x for x in qev if x[0] == "take"]
        ev = [e for e in seg if e[0] == "eff" and e[1].startswith("STAT.")]
        txs = [e for e in seg if e[0] == "eff" and e[1] == "TX.new"]
        pre = [e for e in r.trace[:mi] if e[0] == "eff" and e[1].startswith("STAT.")]
        post = [e for e in r.trace[end:] if e[0] == "eff" and e[1].startswith("STAT.")]
        chk.require(not pre and not post, "H1", fn + ":outside-loop", b.span, "statistics recorded outside the maker loop: %s" % [e[1] for e in pre + post], describe_path(r))
        if not takes:
            chk.require(not ev, "H1", fn + ":no-maker", b.span, "statistics recorded without a maker", describe_path(r))
            continue
        nvis += 1
        o = takes[0][1]
        v = L.R.variant_of(o, r.facts)
        key = "%s:%s" % (fn, v)
        ok = len(ev) == 1 and ev[0][1] == "STAT.record_execution"
        if not chk.require(ok, "H1", key, b.span, "%d statistics call(s) %s in one maker visit%s" % (
                len(ev), [e[1] for e in ev], " (a transaction was emitted)" if txs else ""), describe_path(r)):
            continue
        a = ev[0][2]
        q, p = a[1], a[2]
        txq = txs[0][2][4] if txs else Int(0)
        okq, why = prove_zero(affine(q).add(affine(txq), -1), r.facts)
        chk.require(okq, "H1", key + ":quantity", ev[0][5], "record_execution quantity %s differs from the transaction quantity %s (%s)" % (short(q), short(txq), why), describe_path(r))
        okp = p == price_self
        chk.require(okp, "H1", key + ":price", ev[0][5], "record_execution price %s is not the level's price (the price the transaction of the same fill is reported at)" % short(p), describe_path(r))
    chk.require(nvis >= 10, "H0", fn, b.span, "%d maker visits analysed" % nvis)

    # ---------------- H1 for the other (discovered) mutators, per level value they act on
    from .c01 import segments
    n_extra = 0
    for name in L.mutators():
        if "::" not in name:
            continue            # add_order / update_order / match_order: the rules above
        for V, sfx in L.views(name):
            bx, resx, _ = V.paths(name)
            for r in resx:
                if r.kind not in ("return", "backedge") or r.flags:
                    continue
                for segname, lo, hi in segments(r):
                    seg = r.trace[lo:hi]
                    ids = set(id(e) for e in seg)
                    if any(e[0] == "eff" and e[1] in ("STAT.record_execution", "TX.new") for e in seg):
                        continue    # a maker visit of an inlined match: the match rules' business
                    qev = [x for x in V.queue_events(r.trace, r.facts) if id(x[2]) in ids]
                    outs = len([x for x in qev if x[0] in ("take", "rtake", "unpark")])
                    ins = len([x for x in qev if x[0] in ("push", "park", "rpush")])
                    arrivals, departures = max(0, ins - outs), max(0, outs - ins)
                    ev = [e for e in seg if e[0] == "eff" and e[1].startswith("STAT.") and e[2] and V.self_field(e[2][0]) == V.stats_field]
                    added = len([e for e in ev if e[1] == "STAT.record_order_added"])
                    removed = len([e for e in ev if e[1] == "STAT.record_order_removed"])
                    n_extra += 1
                    chk.require(added == arrivals and removed == departures, "H1", "%s%s:%s" % (bx.defp, sfx, LR.first_label(r)), bx.span,
                                "%d order(s) enter and %d leave this level's queue on the path, but its statistics record %d added / %d removed" % (
                                    arrivals, departures, added, removed), describe_path(r))
    chk.stats["extra_mutator_segments"] = n_extra
    # ---------------- H5 every level value is built with a statistics object of its own
    level_def = L.level_adt["def"]
    n_ctor = 0
    for d, bd in sorted(db.bodies.items()):
        if bd.kind == "Closure" or not any(s["k"] == "assign" and s["rv"]["k"] == "agg" and s["rv"].get("adt") == level_def
                                            for blk in bd.blocks for s in blk["stmts"]):
            continue
        w5 = L.walker(max_depth=2)
        w5.no_inline = lambda p: "PriceLevelStatistics" not in p
        try:
            res5 = w5.walk(bd)
        except Exception:
            continue
        for r in res5:
            aggs = [t for v in [r.value] + list(r.state.heap.values()) for t in subterms(v)
                    if isinstance(t, tuple) and t and t[0] == "agg" and t[1] == level_def]
            for t in aggs:
                st_t = dict(t[3]).get(L.stats_field)
                n_ctor += 1
                shared = [x for x in subterms(st_t) if isinstance(x, tuple) and x and (
                    (x[0] == "field" and x[3] == L.stats_field) or (x[0] == "f" and len(x) == 3 and x[2] == L.stats_field))]
                chk.require(not shared, "H5", "%s:fresh-statistics" % d, bd.span,
                            "a PriceLevel is built around another level's statistics object (%s): both levels then count each other's events" % short(st_t)[:120],
                            describe_path(r))
    chk.require(n_ctor >= 1, "H0", "constructors-found", "", "no PriceLevel construction site analysed")
    # ---------------- H4 single hand-out
    from ..queue import QueueAnalysis
    Q = QueueAnalysis(ctx)
    Q.rule_pop(chk, "H4", "H4", "H4")
    Q.rule_remove_find(chk, "H4")
    Q.who_may(chk, "H4")
    # ---------------- H2 recorder bodies
    stats_adt = db.adt("price_level::statistics::PriceLevelStatistics")
    sself = ("obj", ("param", 1))

    def atomics_of(name):
        bb = db.method("PriceLevelStatistics", name)
        w = ctx.walker(max_depth=2)
        w.effect_of = make_effect_fn({"ATOMIC", "NONDET"})
        out = []
        for r in w.walk(bb):
            if r.kind != "return":
                continue
            evs = []
            for e in r.trace:
                if e[0] == "eff" and e[1].startswith("ATOMIC."):
                    ref = e[2][0]
                    fld = ref[1][2][0][2] if isinstance(ref, tuple) and ref[0] == "ref" and ref[1][1] == sself and ref[1][2] else None
                    evs.append((fld, e[1][7:], e[2][1] if len(e[2]) > 1 else None, e))
            out.append((r, evs))
        return bb, out
    for name, fld in (("record_order_added", "orders_added"), ("record_order_removed", "orders_removed")):
        bb, paths = atomics_of(name)
        for r, evs in paths:
            ok = len(evs) == 1 and evs[0][0] == fld and evs[0][1] == "fetch_add" and evs[0][2] == Int(1)
            chk.require(ok, "H2", bb.defp, bb.span, "%s performs %s" % (name, [(f, op, short(x)) for f, op, x, _ in evs]), describe_path(r))
    bb, paths = atomics_of("record_execution")
    qty, price = ("param", 2), ("param", 3)
    for r, evs in paths:
        byf = {}
        for f, op, x, e in evs:
            byf.setdefault(f, []).append((op, x))
        okq = byf.get("quantity_executed") == [("fetch_add", qty)]
        v = byf.get("value_executed")
        okv = v is not None and len(v) == 1 and v[0][0] == "fetch_add" and v[0][1] in (("bin", "Mul", qty, price), ("bin", "Mul", price, qty))
        if r.facts.known_zero(qty) and "quantity_executed" not in byf and "value_executed" not in byf:
            okq = okv = True     # quantity == 0 on this path: both updates would add 0 and may be skipped
        chk.require(okq, "H2", bb.defp + ":quantity_executed", bb.span, "quantity_executed updated by %s" % [(op, short(x)) for op, x in byf.get("quantity_executed", [])], describe_path(r))
        chk.require(okv, "H2", bb.defp + ":value_executed", bb.span, "value_executed updated by %s" % [(op, short(x)) for op, x in byf.get("value_executed", [])], describe_path(r))
        for f in ("orders_added", "orders_removed"):
            chk.require(f not in byf, "H2", bb.defp + ":" + f, bb.span, "record_execution touches %s" % f)
    for name in sorted(NAMED):
        gb = db.method("PriceLevelStatistics", name)
        _, paths = atomics_of(name)
        for r, evs in paths:
            ok = len(evs) == 1 and evs[0][0] == name and evs[0][1] == "load" and r.value == evs[0][3][3]
            chk.require(ok, "H2", gb.defp, gb.span, "getter %s performs %s and returns %s" % (name, [(f, op) for f, op, _, _ in evs], short(r.value)))
    # who else writes the four named counters inside the crate
    cg = ctx.cg
    allowed_writers = {"new", "reset", "record_order_added", "record_order_removed", "record_execution", "from_str", "deserialize", "visit_map", "default"}
    # code the property's histories can run: everything reachable from the methods and trait impls of PriceLevel
    from ..tables import base_type
    level_roots = [d for d, bd in db.bodies.items() if bd.kind != "Closure" and base_type(bd.impl_self or "") == "PriceLevel"]
    level_reach = cg.reach(level_roots)
    chk.require(len(level_roots) >= 20, "H0", "level-roots", "", "only %d PriceLevel bodies found" % len(level_roots))
    for d, effs in cg.direct.items():
        body = db.bodies[d]
        owner = body
        while owner.kind == "Closure" and owner.parent in db.bodies:
            owner = db.bodies[owner.parent]
        for c, m, bbk, callee, span in effs:
            if c != "ATOMIC" or m in ("load", "new") or bbk < 0:
                continue
            # receiver field
            t = body.blocks[bbk]["term"]
            fld = _recv_field(body, t)
            if fld in NAMED:
                in_stats = "statistics" in (owner.impl_self or "") or "PriceLevelStatistics" in (owner.impl_self or "")
                # a further operation of the statistics object itself (like `reset`: a merge, an import) is outside the
                # property's histories as long as no level operation reaches it
                own_api = in_stats and owner.vis == "pub" and owner.defp not in level_reach and d not in level_reach
                chk.require((in_stats and owner.name in allowed_writers) or own_api, "H2", "%s:%s.%s" % (d, fld, m), span,
                            "statistics counter %s written by %s in %s%s" % (fld, m, d, " (reachable from the level's operations)" if in_stats else ""))
                if m not in ("fetch_add",) and owner.name not in ("reset", "new", "from_str", "visit_map", "deserialize"):
                    chk.fail("H2", "%s:%s.%s:not-rmw" % (d, fld, m), span, "counter %s updated with %s (lost updates under contention)" % (fld, m))
    if ctx.tier == "thorough":
        thorough_h3(ctx, chk)


def _recv_field(body, term):
    """field name of the atomic receiver of a call terminator (single-assignment temp resolution)"""
    if not term["args"]:
        return None
    a = term["args"][0]
    if a["k"] not in ("copy", "move"):
        return None
    l = a["place"]["l"]
    for blk in body.blocks:
        for s in blk["stmts"]:
            if s["k"] == "assign" and s["place"]["l"] == l and not s["place"]["p"] and s["rv"]["k"] == "ref":
                for p in reversed(s["rv"]["place"]["p"]):
                    if p["k"] == "field":
                        return p.get("name")
    return None


def thorough_h3(ctx, chk):
    """all targets of the workspace (tests cfg, integration tests, benches, examples): no write to the pub stats atomics"""
    import os
    from ..extract import extract, REPO
    from ..db import DB
    from ..effects import CallGraph
    try:
        facts, dt = extract(REPO, os.path.join(ctx.work, "facts-all"), None, all_targets=True, target_name="target-all", extra_args=["--workspace"], any_crate=True)
    except TypeError:
        chk.fail("H3", "extract", "", "thorough extraction not available", undecided=True)
        return
    n = 0
    for fname, d in facts.items():
        dbx = DB(d)
        for bd in dbx.bodies.values():
            for bbk, t in bd.calls():
                callee = t["callee"]
                if callee is None:
                    continue
                if (callee.get("impl_self") or "").startswith("std::sync::atomic::Atomic") and callee["name"] not in ("load", "new"):
                    fld = _recv_field(bd, t)
                    if fld in NAMED:
                        n += 1
                        in_stats = "statistics" in t["span"] and "tests" not in t["span"]
                        chk.require(in_stats or d.get("is_test") and "statistics" in t["span"], "H3", "%s:%s:%s" % (d["crate"], bd.defp, fld), t["span"],
                                    "target %s writes statistics counter %s directly (%s)" % (d["crate"], fld, callee["name"]))
    chk.stats["h3_atomic_writes_seen"] = n
    chk.stats["h3_targets"] = sorted(facts)
