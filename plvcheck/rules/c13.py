"""C13 - cancel/amend acknowledgements stay truthful under concurrency."""
from ..level import LevelAnalysis
from ..queue import QueueAnalysis
from .. import lvlrules as LR

RULES = {
    "N1": "no remove-then-reinsert window: an operation path must not take an order out of the id map and put (a successor of) it back later - while it is out, a concurrent cancel/amend of the surviving order answers not-found",
    "N2": "a successful cancel / price move returns the very value handed out by Q.remove (the map removal is the single ownership transfer), for the update's own id",
    "N3": "update_order answers not-found (Ok(None)) only on a path where a lookup actually missed, and then without any effect",
    "N4": "OrderQueue::remove / pop hand out the payload of their own DashMap::remove (so nobody else can obtain the order afterwards)",
    "N5": "no resurrection: every order a mutator publishes (push) and every counter operand derives from a value the thread owns (its parameter, or the payload of its own removal/pop), never from a lookup or a listing (find / to_vec / iter_orders): a copy taken from a listing may belong to an order whose cancel was acknowledged in between",
    "N6": "nothing is taken for good without being handed out: an order match_order sets aside (it neither trades nor replenishes) is put back on every exit of the call - otherwise a later cancel / amend of that never-traded order answers not-found although nothing removed it (C06's drain rule on the same paths)",
}


def run(ctx, chk):
    for k, v in RULES.items():
        chk.rule(k, v)
    chk.explanation = (
        "Typestate-like path rules over MIR (E1): per path of update_order/match_order the queue events are "
        "classified (take / push / park / miss) and the returned value's provenance is compared with the removal's "
        "payload. N1 is a may-property of the source: a site either has the out-of-map window or not. Two sites have "
        "it by construction on the pinned tree (match_order, update_order[UpdateQuantity]) and are recorded as known "
        "findings; any other window, or an acknowledgement not backed by the map removal, is a violation.")
    chk.assumptions = ["DashMap::remove hands an entry to one caller"]
    chk.not_decided = ["reachability/probability of the window in a concrete program"]
    L = LevelAnalysis(ctx)
    Q = QueueAnalysis(ctx)
    LR.rule_windows(ctx, chk, L, "N1")
    LR.rule_removal_returns(ctx, chk, L, "N2", "N3")
    LR.rule_owned_operands(ctx, chk, L, "N5")
    LR.rule_inplace_same_id(ctx, chk, L, "N4")
    Q.rule_remove_find(chk, "N4")
    Q.rule_pop(chk, "N4", "N4", "N4")
    from . import c06
    c06.rule_drain(ctx, chk, L, "N6")
