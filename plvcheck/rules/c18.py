"""C18 - parsers are total: panic-site inventory and discharge (E2 + E4)."""
import re
from .. import tables as T
from ..terms import short, is_int, Int
from ..walk import Walker, cname, Budget
from ..common import describe_path
from .. import panics as P

RULES = {
    "Z1": "inventory: every panic-capable site (MIR assert terminators; str/slice/Vec indexing; unwrap/expect/panic-family; arithmetic helpers that panic) in the call-graph closure of the parser entries is visited by the path walker; a site no walked path reaches is reported",
    "Z2": "discharge: on every path that reaches it, each site matches one named rule (len-guard, prefix-guard, suffix-guard, find-index, match+len, suffix-offset, char-indices, ascii-byte via loop invariant, order-guard, sub-guard, add-bounded, char-counter, constant) using only facts established before the site plus inductive loop invariants",
    "Z3": "no endless loop: every loop reachable from a parser entry is driven by a finite std/serde iterator (`next`-family call whose None ends the loop) or advances an integer cursor by >= 1 on every back-edge path under a `cursor < len` header fact",
    "Z4": "no recursion among the parsers and no removal of serde_json's recursion limit",
    "Z5": "every external callee reachable from the parsers is on the trusted-total list or is treated as a panic site",
}

ITER_NEXT = {"next", "next_element", "next_element_seed", "next_key", "next_key_seed", "next_value", "next_value_seed", "next_entry", "next_entry_seed"}


def parser_entries(db):
    ents = []
    for b in db.bodies.values():
        if b.kind != "AssocFn" or not b.impl_trait:
            continue
        if b.name == "from_str" and "FromStr" in b.impl_trait:
            ents.append(b)
        elif b.name == "deserialize" and "Deserialize" in b.impl_trait:
            ents.append(b)
    ents.append(db.method("PriceLevelSnapshotPackage", "from_json"))
    ents.append(db.method("PriceLevel", "from_snapshot_json"))
    ents.append(db.method("PriceLevel", "try_from", trait="TryFrom"))
    # discovered: every other function of the crate that takes text and answers with a Result is a parser entry
    # (a new `from_json(&str)`, `TryFrom<&str>`, `parse_*` helper made public, ...)
    have = {b.defp for b in ents}
    for d, b in sorted(db.bodies.items()):
        if b.kind == "Closure" or d in have or b.argc < 1:
            continue
        ret = b.locals[0]["ty"].replace(" ", "")
        if not (ret.startswith("std::result::Result<") or ret.startswith("core::result::Result<")):
            continue
        text = False
        for i in range(1, b.argc + 1):
            ty = b.locals[i]["ty"].replace(" ", "")
            ty = re.sub(r"&'[a-z_0-9]+", "&", ty)
            if ty in ("&str", "&[u8]", "std::string::String", "&std::string::String", "std::vec::Vec<u8>"):
                text = True
        if text:
            ents.append(b)
    return ents


def static_sites(db, body):
    """[(bb, kind, text, span)] panic-capable sites of one body"""
    out = []
    reach = body.reachable()
    for i in sorted(reach):
        blk = body.blocks[i]
        if blk["cleanup"]:
            continue
        t = blk["term"]
        if t["k"] == "assert":
            out.append((i, "assert:" + t["msg"], t["msg"], t["span"]))
        elif t["k"] == "call" and t["callee"] is not None:
            c = t["callee"]
            if c["local"] and c["path"] in db.bodies:
                continue
            nm = c["name"]
            cn = cname(c["path"])
            if nm in P.PANICKY_NAMES:
                base = (c.get("impl_self") or "").split("<")[0]
                if (nm, base) in P.TOTAL_ON:
                    continue
                if nm in ("index", "index_mut") and "HashMap" in (c.get("impl_self") or ""):
                    out.append((i, "call:hashmap-index", cn, t["span"]))
                    continue
                out.append((i, "call:" + nm, cn, t["span"]))
        elif t["k"] == "call" and t["callee"] is None:
            out.append((i, "call:indirect", "<indirect>", t["span"]))
    return out


def run(ctx, chk):
    for k, v in RULES.items():
        chk.rule(k, v)
    chk.explanation = (
        "Engine E4: the call-graph closure (E2) of the 58 parser entry points (every FromStr::from_str, every "
        "Deserialize::deserialize, from_json, from_snapshot_json, TryFrom<PriceLevelData>) is inventoried for "
        "panic-capable sites in the MIR; each root function is then walked path-sensitively (E1) with Houdini-style "
        "inductive loop invariants (cursor is a char boundary, monotone lower bounds, ASCII-bracketed substring) and "
        "every site on every path must be discharged by a named rule from the facts that dominate it. Loops must be "
        "iterator-driven or advance a bounded cursor; the parser call graph must be acyclic. Inputs are never run "
        "through the parsers.")
    chk.assumptions = ["std / uuid / ulid / serde / serde_json callees on the trusted list do not panic on any input",
                       "inputs are shorter than 2 GiB (per-character i32 depth counters)", "allocation does not fail"]
    chk.not_decided = ["panics inside trusted callees", "allocation failure", "stack depth of serde_json (its recursion limit is kept)"]
    db = ctx.db
    cg = ctx.cg
    ents = parser_entries(db)
    chk.entry_sets = {"parser_entries": [b.defp for b in ents]}
    reach = cg.reach([b.defp for b in ents])
    chk.stats["entries"] = len(ents)
    chk.stats["reachable_bodies"] = len(reach)
    # ---------------- Z5 / Z4
    unknown = {}
    for d in sorted(reach):
        for x in cg.external.get(d, ()):
            if x == "<indirect>":
                continue
            if not x.startswith(P.TRUSTED_TOTAL_PREFIXES):
                unknown.setdefault(x, d)
            if "disable_recursion_limit" in x:
                chk.fail("Z4", d + ":disable_recursion_limit", db.bodies[d].span, "serde_json's recursion limit is removed")
    for x, d in sorted(unknown.items()):
        chk.fail("Z5", "external:" + x, db.bodies[d].span, "external callee %s (called from %s) is neither trusted-total nor handled as a panic site" % (x, d), undecided=True)
    chk.require(True, "Z5", "externals-classified", "", "")
    # recursion: any cycle inside the reachable set
    color = {}
    cyc = []

    def dfs(u, stack):
        color[u] = 1
        for v in sorted(cg.edges.get(u, ())):
            if v not in reach:
                continue
            if color.get(v) == 1:
                cyc.append(stack + [u, v])
            elif v not in color:
                dfs(v, stack + [u])
        color[u] = 2
    import sys
    sys.setrecursionlimit(10000)
    for d in sorted(reach):
        if d not in color:
            dfs(d, [])
    chk.require(not cyc, "Z4", "acyclic", "", "recursion among parser functions: %s" % (" -> ".join(cyc[0][-4:]) if cyc else ""))

    # ---------------- Z1 inventory
    inventory = {}
    for d in sorted(reach):
        for bb, kind, text, span in static_sites(db, db.bodies[d]):
            inventory[(d, bb)] = {"kind": kind, "text": text, "span": span, "visited": 0, "failed": None, "rules": set()}
    chk.stats["sites"] = len(inventory)
    kinds = {}
    for v in inventory.values():
        kinds[v["kind"]] = kinds.get(v["kind"], 0) + 1
    chk.stats["site_kinds"] = kinds

    # roots: reachable non-closure bodies that are not nested inside another reachable fn
    fn_defs = sorted(d for d in reach if db.bodies[d].kind != "Closure")
    roots = []
    callers = {}
    for u in reach:
        for v in cg.edges.get(u, ()):
            callers.setdefault(v, set()).add(u)
    for d in fn_defs:
        nested = any(d != o and d.startswith(o + "::") for o in fn_defs)
        b = db.bodies[d]
        # a private helper (module-level parse helper, fn in a private `mod detail`) is analysed inline in each of its
        # callers, with their facts - not on its own with unconstrained arguments
        helper = b.impl_trait is None and getattr(b, "vis", None) != "pub" and b.name not in ("from_str", "deserialize", "try_from", "new") \
            and any(c != d and not c.startswith(d + "::") for c in callers.get(d, ()))
        if not nested and not helper:
            roots.append(d)
    chk.stats["roots"] = len(roots)
    loops_seen = {}
    inlined_from = set()    # (caller def, callee def): the callee's body was walked inline from that caller on some path
    for d in roots:
        body = db.bodies[d]
        hs = T.helpers_of(ctx, body)
        owned = [x for x in reach if x == d or x.startswith(d + "::") or x in hs]
        has_sites = any((x, bb) in inventory for x in owned for bb in range(len(db.bodies[x].blocks)))
        has_loops = any(db.bodies[x].loops() for x in owned)
        if not has_sites and not has_loops:
            continue
        try:
            res, inv, nround = walk_root(ctx, body)
        except Budget as ex:
            chk.fail("Z1", d + ":budget", body.span, "path budget exceeded: %s" % ex, undecided=True)
            continue
        chk.stats.setdefault("invariant_rounds", {})[d.split("::")[-2] if "::" in d else d] = nround
        for r in res:
            for e in r.trace:
                stk = e[3] if e[0] == "assert" else (e[4] if e[0] == "call" and len(e) > 4 else None)
                if isinstance(stk, tuple):
                    fr = [x for x in stk if isinstance(x, tuple) and len(x) == 2 and isinstance(x[0], str)]
                    for a_, b_ in zip(fr, fr[1:]):
                        inlined_from.add((a_[0], b_[0]))
                if e[0] == "loop":
                    loops_seen.setdefault((e[3], e[1]), []).append(r)
                if e[0] == "assert":
                    sk = e[3][-1]
                elif e[0] == "call" and (P.is_str_index(e) or P.is_vec_index(e) or e[1].split("::")[-1] in P.PANICKY_NAMES):
                    sk = e[4][-1]
                else:
                    continue
                ent = inventory.get(sk)
                if ent is None:
                    continue
                ent["visited"] += 1
                if e[0] == "assert" and all(is_int(o) for o in e[2]):
                    ent["rules"].add("constant")
                    continue
                ok, rule, detail = P.discharge(e, r.facts, r.trace)
                if ok:
                    ent["rules"].add(rule.split(":")[0] if rule.startswith("str-slice") else rule)
                    if rule.startswith("str-slice:"):
                        ent["rules"].add(rule)
                elif ent["failed"] is None:
                    ent["failed"] = (rule, detail, r)
    n_ok = 0
    for (d, bb), ent in sorted(inventory.items()):
        # key: function + site kind + ordinal of that kind within the function (no line numbers)
        same = sorted(k for k in inventory if k[0] == d and inventory[k]["kind"] == ent["kind"])
        ordinal = same.index((d, bb))
        key = "%s:%s#%d" % (d, ent["kind"], ordinal)
        if ent["visited"] == 0 and d not in roots and db.bodies[d].kind != "Closure" and callers.get(d) \
                and all((c, d) in inlined_from for c in callers[d] if c != d):
            # a private helper walked inline from every one of its callers in the parsers' closure, with their argument
            # values: the walker enumerates every feasible path, so a block none of them reaches is cut off by the
            # callers' (constant) arguments - e.g. a mode parameter no parser passes
            chk.ok("Z1", key, ent["span"], "infeasible from the parser entries: the helper is inlined from each caller (%s) and no walked path reaches this block" % ", ".join(sorted(c.split("::")[-1] for c in callers[d])))
            n_ok += 1
        elif ent["visited"] == 0:
            chk.fail("Z1", key, ent["span"], "panic-capable site (%s) is not reached by any walked path" % ent["text"], undecided=True)
        elif ent["failed"] is not None:
            rule, detail, r = ent["failed"]
            chk.fail("Z2", key, ent["span"], "%s can panic: %s" % (ent["text"], detail), describe_path(r))
        else:
            n_ok += 1
            chk.ok("Z2", key, ent["span"], ",".join(sorted(ent["rules"])))
            if len(chk.samples) < 12:
                chk.sample({"site": key, "at": ent["span"], "rules": sorted(ent["rules"]), "paths": ent["visited"]})
    chk.stats["discharged_sites"] = n_ok
    chk.require(len(inventory) >= 40, "Z1", "inventory-size", "", "only %d panic-capable sites found in the parser closure (expected >= 40)" % len(inventory))

    # ---------------- Z3 loops
    nloops = 0
    for d in sorted(reach):
        body = db.bodies[d]
        for h, blocks in sorted(body.loops().items()):
            nloops += 1
            names = set()
            for b in blocks:
                t = body.blocks[b]["term"]
                if t["k"] == "call" and t["callee"] is not None:
                    names.add(t["callee"]["name"])
            key = "%s:loop#%d" % (d, sorted(body.loops()).index(h))
            if names & ITER_NEXT:
                chk.ok("Z3", key, body.span, "iterator-driven")
                continue
            # cursor loop: need evidence from the walked paths
            lk = "%s@bb%d" % (d, h)
            # the same source loop may be walked in several inlinings; every one of them must make progress
            keys = sorted({k for (dd, k) in loops_seen if dd == d and (k == lk or k.startswith(lk + "<-"))})
            ok, why = (False, "no iteration path walked")
            for k in keys:
                backs = [r for r in loops_seen[(d, k)] if r.kind == "backedge" and Walker._site_str(r.detail) == k]
                ok, why = cursor_progress(backs, k, body)
                if not ok:
                    break
            chk.require(ok, "Z3", key, body.span, "loop is neither iterator-driven nor a bounded advancing cursor: %s" % why)
    chk.stats["loops"] = nloops
    if ctx.tier == "thorough":
        clippy_crosscheck(ctx, chk, inventory, reach)


def body_strs(st, fr):
    """[(source, string term)]: the &str-typed locals of the frame that hold a value at this point; a `&&str` local also
    offers its pointee.  Sources are stable across paths, the terms are not."""
    out = []
    for l, v in sorted(fr.locals.items()):
        ty = fr.body.locals[l]["ty"]
        if ty.startswith("&") and ty.endswith("str"):
            out.append(((l, "val"), P.norm_str(v)))
            if ty.startswith("&&") or ty.startswith("&'") and "&" in ty[2:]:
                out.append(((l, "deref"), ("val", ("obj", ("deref", P.norm_str(v))))))
    return out


def walk_root(ctx, body):
    inv = P.Invariants()
    last = None
    for rnd in range(20):
        w = ctx.walker(max_depth=4)
        w.no_inline = lambda p, hs=T.helpers_of(ctx, body): p not in hs
        inv.install(w, body_strs)
        res = w.walk(body)
        dropped = inv.check(res, None)
        last = res
        if dropped == 0:
            return res, inv, rnd + 1
    # not stable: fall back to no invariants at all (sound: nothing assumed)
    inv.cands = {k: set() for k in inv.cands}
    w = ctx.walker(max_depth=4)
    w.no_inline = lambda p, hs=T.helpers_of(ctx, body): p not in hs
    inv.install(w, body_strs)
    return w.walk(body), inv, 99


def cursor_progress(backs, lk, body):
    from ..terms import affine, unsign
    if not backs:
        return False, "no iteration path walked"
    cands = None
    for r in backs:
        fr = None
        for f in r.state.frames.values():
            if f.body.defp == r.detail[1] and f.site == r.detail[0]:
                fr = f
        if fr is None:
            return False, "frame lost"
        good = set()
        for l, decl in enumerate(body.locals):
            if decl["ty"] != "usize":
                continue
            h = ("havoc", lk, l)
            nv = fr.locals.get(l)
            if nv is None or nv == h:
                continue
            RR = P.Reason(r.facts, r.trace)
            dvs = RR.lower_variants(affine(unsign(nv)).add(affine(h), -1))
            if any(d.k >= 1 and all(c >= 0 for c in d.c.values()) for d in dvs) or r.facts.decide_atom(("lt", h, unsign(nv))) is True \
                    or RR.le(("bin", "Add", h, Int(1)), unsign(nv))[0]:
                # bounded: header fact h < something
                if any(a[0] == "lt" and p is True and a[1] == h for a, p in r.facts.order):
                    good.add(l)
        cands = good if cands is None else (cands & good)
        if not cands:
            return False, "a back-edge path does not advance any bounded cursor: " + "; ".join(r.facts.describe(6))
    return True, "cursor %s" % sorted(cands)


CLIPPY_LINTS = ["indexing_slicing", "string_slice", "unwrap_used", "expect_used", "panic", "unreachable", "arithmetic_side_effects",
                "unimplemented", "todo", "get_unwrap", "integer_division"]


def clippy_crosscheck(ctx, chk, inventory, reach):
    """thorough: an independent inventory (clippy restriction lints, type-resolved by rustc) of panic-capable
    expressions; every one that lies inside a function of the parser closure must coincide with a site of Z1"""
    import json
    import os
    import subprocess
    from ..extract import REPO, CACHE
    db = ctx.db
    env = dict(os.environ, CARGO_TARGET_DIR=os.path.join(CACHE, "target-clippy"), CARGO_NET_OFFLINE="true")
    cmd = ["cargo", "+nightly", "clippy", "--offline", "--lib", "--message-format=json", "--", "-A", "clippy::all"]
    for l in CLIPPY_LINTS:
        cmd += ["-W", "clippy::" + l]
    # force a re-lint of the working tree
    fp = os.path.join(CACHE, "target-clippy", "debug", ".fingerprint")
    if os.path.isdir(fp):
        for d in os.listdir(fp):
            if d.startswith("pricelevel-"):
                subprocess.run(["rm", "-rf", os.path.join(fp, d)])
    r = subprocess.run(cmd, cwd=REPO, env=env, capture_output=True, text=True)
    if r.returncode != 0:
        chk.fail("Z1", "clippy:run", "", "clippy cross-reference could not run: %s" % r.stderr[-400:], undecided=True)
        return
    sites = []
    for line in r.stdout.splitlines():
        try:
            m = json.loads(line)
        except ValueError:
            continue
        if m.get("reason") != "compiler-message":
            continue
        msg = m["message"]
        code = (msg.get("code") or {}).get("code") or ""
        if not code.startswith("clippy::"):
            continue
        for sp in msg["spans"]:
            if sp["is_primary"]:
                sites.append((code, sp["file_name"], sp["line_start"], sp["line_end"]))
    # line ranges of the bodies in the parser closure (closures and nested fns are separate bodies: attribute a line
    # to the innermost body that covers it)
    ranges = []
    for d in reach:
        b = db.bodies[d]
        lines = []
        f0 = b.span.rsplit(":", 2)[0]
        for blk in b.blocks:
            for x in blk["stmts"] + [blk["term"]]:
                sp = x.get("span")
                if sp and not x.get("exp"):
                    f, ln, _ = sp.rsplit(":", 2)
                    if f == f0:
                        lines.append(int(ln))
        if lines:
            ranges.append((f0, min(lines), max(lines), d))
    inv_lines = {}
    for (d, bb), ent in inventory.items():
        f, ln, _ = ent["span"].rsplit(":", 2)
        inv_lines.setdefault(f, set()).add(int(ln))
    missed = 0
    matched = 0
    for code, f, l0, l1 in sites:
        owners = [(hi - lo, d) for (ff, lo, hi, d) in ranges if ff == f and lo <= l0 <= hi]
        if not owners:
            continue    # not in the parser closure
        owner = min(owners)[1]
        near = any(abs(x - l) <= 2 for l in range(l0, l1 + 1) for x in inv_lines.get(f, ()))
        if near:
            matched += 1
        else:
            missed += 1
            chk.fail("Z1", "clippy-missed:%s:%s" % (owner, code), "%s:%d" % (f, l0),
                     "%s reports a panic-capable expression at %s:%d inside the parser closure that the MIR inventory has no site for" % (code, f, l0), undecided=True)
    chk.stats["clippy_sites_total"] = len(sites)
    chk.stats["clippy_sites_in_closure_matched"] = matched
    chk.require(missed == 0, "Z1", "clippy-cross-reference", "", "%d clippy sites in the parser closure are missing from the inventory" % missed)
