"""C01 - aggregates equal the sums over the resting orders: conservation ledger (L1-L6)."""
from ..terms import Affine, affine, prove_zero, short, Int, is_int, subterms, get_field
from ..common import describe_path
from ..level import LevelAnalysis, MUTATORS, SELF, mentions_eff, seq_view
from ..db import AnchorError

RULES = {
    "L1": "on every path of every mutator (per loop iteration for match_order) the counter deltas equal the queue delta: dV = sum display(pushed) - sum display(taken), dH likewise with the reserve field, dN = #pushed - #taken",
    "L2": "a path on which the lookup/removal/pop found nothing performs no counter update",
    "L3": "inside the mutators the aggregate atomics are only touched by fetch_add / fetch_sub / load, and no add/sub operand is computed from a load of an aggregate",
    "L4": "every constructor of a PriceLevel value either starts empty (zero counters, OrderQueue::new()) or derives the three counters from the very order list it queues (refresh_aggregates fold) ",
    "L5": "total_quantity returns load(visible) + load(hidden)",
    "L6": "every fetch_sub operand is bounded by the counted contribution of an order taken on that path (its display/reserve, match_against's consumed/hidden_reduced, or old-new on the new<old branch)",
    "L7": "the listing the aggregates are compared with (iter_orders -> OrderQueue::to_vec) shows each resting order exactly once: a collect over the id map's iteration, never the ticket queue (which may hold an id twice or ids of removed orders)",
    "L0": "coverage: the mutators are add_order, match_order, update_order plus every other function found (from the MIR, on every run) to write a counter or the queue of a level passed as its first parameter; every function that writes a level's counters or queue is one of them or reached from one; every mutator has queue effects, every OrderUpdate variant is analysed, no path ends undecided",
}


def seg_for(r):
    """the trace segment a per-iteration rule looks at"""
    return r.since_loop() if any(e[0] == "loop" for e in r.trace) else r.trace


def check_mutator(ctx, chk, L, name):
    """the ledger of one mutator, for the level it is called on and for every other level value it acts on"""
    res = None
    for V, sfx in L.views(name):
        r0 = _check_mutator(ctx, chk, V, name, sfx)
        res = r0 if res is None else res
    return res


def _check_mutator(ctx, chk, L, name, sfx=""):
    b, res, stats = L.paths(name)
    fn = b.defp + sfx
    site = b.span
    chk.stats.setdefault("paths", {})[name] = len(res)
    chk.stats.setdefault("walker", {})[name] = {k: v for k, v in stats.items() if k != "opaque"}
    n_q = 0
    for r in res:
        if r.kind in ("unreachable", "panic"):
            continue
        if r.flags:
            chk.fail("L0", "%s:undecided" % fn, site, "inline depth bound hit: %s" % sorted(r.flags), describe_path(r), undecided=True)
            continue
        if r.kind not in ("return", "backedge"):
            chk.fail("L0", "%s:exit-%s" % (fn, r.kind), site, "path ends in %s (%s)" % (r.kind, r.detail), describe_path(r), undecided=True)
            continue
        # pre-loop part must not touch the ledger alphabet unless it balances as a whole
        r = seq_view(L, r)
        if r is None:
            continue    # infeasible single-threaded (the two lookups of one id disagree)
        segs = segments(r)
        for segname, lo, hi in segs:
            d, q, cev, qev, other = L.deltas(r.trace, r.facts, lo, hi)
            if qev:
                n_q += 1
            arm = arm_of(r)
            for role in ("visible", "hidden", "count"):
                form = d[role].add(q[role], -1)
                ok, why = prove_zero(form, r.facts)
                key = "%s:%s" % (fn, arm)
                if ok:
                    chk.ok("L1", key + ":" + role, site)
                else:
                    chk.fail("L1", key + ":" + role, site,
                             "%s counter delta is %r but the queue delta is %r (%s)" % (role, d[role], q[role], why), describe_path(r))
            # L2
            takes = [k for k, _, _ in qev if k in ("take", "take?", "rtake")]
            misses = [k for k, _, _ in qev if k == "miss"]
            pushes = [k for k, _, _ in qev if k in ("push", "park", "rpush")]
            if misses and not takes and not pushes:
                ups = [c for c in cev if c[1] != "load"]
                chk.require(not ups, "L2", "%s:%s" % (fn, arm), site,
                            "counter update %s although nothing was found" % [(c[0], c[1]) for c in ups], describe_path(r))
            # L3
            for role, op, e in other:
                chk.fail("L3", "%s:%s:%s" % (fn, role, op), e[5], "aggregate %s touched by %s inside a mutator" % (role, op), describe_path(r))
            for role, op, operand, e in cev:
                if op in ("fetch_add", "fetch_sub") and operand is not None:
                    bad = mentions_eff(operand, {"ATOMIC.load"})
                    chk.require(bad is None, "L3", "%s:%s:%s:from-load" % (fn, role, op), e[5],
                                "operand %s is computed from an atomic load" % short(operand), describe_path(r))
            # L6 bounded decrements
            taken = [o for k, o, _ in qev if k in ("take", "rtake")]
            for role, op, operand, e in cev:
                if op != "fetch_sub":
                    continue
                ok, why = bounded_decrement(L, r, role, operand, taken)
                chk.require(ok, "L6", "%s:%s:%s" % (fn, arm, role), e[5],
                            "fetch_sub(%s) on %s is not bounded by a taken order's contribution: %s" % (short(operand), role, why), describe_path(r))
            if r.kind == "return" and len(chk.samples) < 10 and qev:
                chk.sample({"rule": "L1", "fn": fn, "arm": arm, "dV": repr(d["visible"]), "qV": repr(q["visible"]),
                            "dH": repr(d["hidden"]), "qH": repr(q["hidden"]), "dN": repr(d["count"]), "qN": repr(q["count"]),
                            "facts": r.facts.describe(10), "verdict": "balanced"})
    chk.require(n_q > 0, "L0", "%s:has-queue-effects" % fn, site, "no path of %s touches the order queue" % name)
    return res


def segments(r):
    """[(name, lo, hi)] index ranges of the trace that must balance on their own: each stretch between
    loop-header markers (pre-loop code, one loop iteration, code between/after loops)."""
    marks = [i for i, e in enumerate(r.trace) if e[0] == "loop"]
    if not marks:
        return [("whole", 0, len(r.trace))]
    out = []
    prev = 0
    for n, m in enumerate(marks):
        out.append(("seg%d" % n, prev, m))
        prev = m + 1
    out.append(("seg%d" % len(marks), prev, len(r.trace)))
    return out


def arm_of(r):
    """a stable label for the path: OrderUpdate variant / order variant decided on it"""
    labels = []
    for atom, pol in r.facts.order:
        if atom[0] == "variant":
            t = atom[1]
            if t == ("param", 2) or (isinstance(t, tuple) and t[0] == "param"):
                labels.append(atom[2])
            elif isinstance(t, tuple) and t[0] == "field" and t[2] == "Some":
                labels.append(atom[2])
            elif isinstance(t, tuple) and t[0] == "agg":
                pass
    # keep enum-like labels only
    labels = [l for l in labels if l not in ("Some", "None", "Ok", "Err")]
    return "/".join(dict.fromkeys(labels)) or "-"


def bounded_decrement(L, r, role, operand, taken):
    """static content of 'no wrap': the decrement is (a sum of) quantities the taken order contributes."""
    facts = r.facts
    if is_int(operand):
        if operand[1] == 0:
            return True, "zero"
        return (operand[1] == 1 and role == "count" and len(taken) >= 1, "constant")
    which = {"visible": "display", "hidden": "reserve"}.get(role)
    if which is None:
        return False, "non-constant decrement of the order count"
    for o in taken:
        contrib = L.R.role(o, facts, which)
        other = L.R.role(o, facts, "reserve" if which == "display" else "display")
        # operand == contrib ?
        ok, _ = prove_zero(affine(operand).add(affine(contrib), -1), facts)
        if ok:
            return True, "whole contribution"
        # operand is min(.., contrib) / contrib - x / bounded by construction
        from .c05 import upper_bounds
        if contrib in upper_bounds(operand):
            return True, "bounded by construction"
        # operand = old - new on the branch new < old, with old = contrib
        if isinstance(operand, tuple) and operand[0] == "bin" and operand[1] == "Sub":
            a, bb = operand[2], operand[3]
            oka, _ = prove_zero(affine(a).add(affine(contrib), -1), facts)
            if oka and facts.decide_atom(("lt", a, bb)) is False:
                return True, "old-new with new<=old"
        # hidden->visible transfer: operand bounded by the reserve (hidden_reduced = min(..,reserve))
        if role == "hidden":
            pass
        # consumed <= display: by C05 consumed = min(incoming, display) : operand equals incoming with incoming<display
        if facts.decide_atom(("lt", operand, contrib)) is True:
            return True, "dominating fact operand < contribution"
    return False, "taken orders: %s" % [short(o) for o in taken]


def check_constructors(ctx, chk, L, rid="L4", rid0="L0"):
    db = ctx.db
    R = L.R
    level_def = L.level_adt["def"]
    snap = db.adt("price_level::snapshot::PriceLevelSnapshot")
    # the fold rule on refresh_aggregates
    ra = db.method("PriceLevelSnapshot", "refresh_aggregates")
    fold_ok, fold_detail = check_refresh_aggregates(ctx, ra, R)
    chk.require(fold_ok, rid, "%s:fold" % ra.defp, ra.span, fold_detail)
    # every public way of obtaining a PriceLevel value: private helpers are inlined into their callers, other public
    # constructors are treated as (separately checked) delegation targets
    import re as _re
    ty_re = _re.compile(r"(^|[<\s,(&])" + _re.escape(L.level_adt["def"]) + r"($|[>\s,)])")
    entries = {}
    for b in db.bodies.values():
        if b.kind == "Closure" or not b.locals:
            continue
        if not ty_re.search(b.locals[0]["ty"]):
            continue
        if b.vis == "pub" or b.impl_trait is not None:
            entries[b.defp] = b
    n_sites = 0
    for d, b in sorted(entries.items()):
        w = L.walker(max_depth=4)
        w.no_inline = lambda p, d=d: p.endswith("refresh_aggregates") or "OrderQueue" in p or "PriceLevelStatistics" in p \
            or p.endswith("PriceLevel::add_order") or (p in entries and p != d) or "into_snapshot" in p or p.endswith("::from_json")
        res = w.walk(b)
        for r in res:
            if r.kind != "return":
                continue
            aggs = [t for t in subterms(r.value) if isinstance(t, tuple) and t and t[0] == "agg" and t[1] == level_def]
            for t in aggs:
                n_sites += 1
                ok, detail = constructor_site_ok(L, r, t, ra, res)
                chk.require(ok, rid, "%s:construct" % b.defp, b.span, detail, describe_path(r))
            if not aggs:
                v = r.value
                is_err = isinstance(v, tuple) and v[0] == "agg" and v[2] == "Err"
                delegated = any(isinstance(t, tuple) and t and t[0] == "call" and any(t[1] == cname_of(e) for e in entries) for t in subterms(v))
                chk.require(is_err or delegated, rid, "%s:delegates" % b.defp, b.span,
                            "returns a level that is neither constructed here nor obtained from another checked constructor: %s" % short(v)[:160], describe_path(r))
    chk.require(n_sites >= 2, rid0, "constructors-found", "", "found %d PriceLevel construction paths (expected the empty constructor and the snapshot constructors)" % n_sites)
    # constructors that re-add: must start from PriceLevel::new and only use add_order
    for tr, self_ty, meth in (("TryFrom", "PriceLevel", "try_from"), ("FromStr", "PriceLevel", "from_str")):
        b = db.method(self_ty, meth, trait=tr)
        closure = ctx.cg.reach([b.defp])
        new_helpers = ctx.cg.reach([db.method("PriceLevel", "new").defp])
        direct_ctor = [d for d in closure if d not in new_helpers and any(
            s["k"] == "assign" and s["rv"]["k"] == "agg" and s["rv"].get("adt") == level_def
            for blk in db.bodies[d].blocks for s in blk["stmts"]) and "from_snapshot" not in d and "From<&" not in d]
        chk.require(not direct_ctor, rid, "%s:re-add" % b.defp, b.span,
                    "constructs a PriceLevel aggregate directly in %s instead of new()+add_order" % direct_ctor)
        eff = [(c, m, d) for c, m, d, callee, sp in ctx.cg.effects_closure(b.defp)
               if c == "ATOMIC" and m not in ("load", "fetch_add", "fetch_sub", "new") and "statistics" not in d and "uuid" not in d]
        chk.require(not eff, rid, "%s:counters" % b.defp, b.span, "counter written by %s" % eff)
        calls_add = db.method("PriceLevel", "add_order").defp in closure
        chk.require(calls_add, rid, "%s:uses-add_order" % b.defp, b.span, "does not reach add_order")
    de = db.method("PriceLevel", "deserialize", trait="Deserialize")
    closure = ctx.cg.reach([de.defp])
    chk.require(db.method("PriceLevel", "try_from", trait="TryFrom").defp in closure, rid, "%s:via-try_from" % de.defp, de.span,
                "Deserialize for PriceLevel does not go through TryFrom<PriceLevelData>")


def cname_of(defp):
    from ..walk import cname
    return cname(defp)


def _self_field(st, fld):
    """value of self.<fld> at an exit: a field write, or the field of a whole-object write (`*self = Self { .. }`)"""
    selfobj = ("obj", ("param", 1))
    v = st.heap.get((selfobj, (("f", None, fld),)))
    if v is None:
        whole = st.heap.get((selfobj, ()))
        if isinstance(whole, tuple) and whole[0] in ("agg", "upd"):
            v = get_field(whole, fld)
            if isinstance(v, tuple) and v[0] == "field" and v[1] == whole:
                v = None
    return v


def _loop_frame(r):
    """the frame that owns the loop a backedge result closes (the fold may live in a helper inlined into the caller)"""
    frames = r.state.frames
    vals = list(frames.values()) if isinstance(frames, dict) else list(frames)
    if isinstance(r.detail, tuple) and len(r.detail) >= 2:
        for f in vals:
            if f.body.defp == r.detail[1] and f.site == r.detail[0]:
                return f
    return frames.get(0) if isinstance(frames, dict) else frames[0]


def check_refresh_aggregates(ctx, ra, R):
    """fold rule: accumulators start at 0, are updated only by saturating_add(acc, accessor(elem)) in a loop over
    the orders, and stored to the like-roled field after the loop; order_count := orders.len()."""
    w = ctx.walker(max_depth=3)
    res = w.walk(ra)
    rets = [r for r in res if r.kind == "return"]
    backs = [r for r in res if r.kind == "backedge"]
    # the order list itself must not be altered (dropped, re-ordered, extended) while the aggregates are recomputed
    for r in res:
        for e in r.trace:
            if e[0] == "call":
                for a in e[2]:
                    if isinstance(a, tuple) and a[0] == "ref" and a[2] and a[1][1] == ("obj", ("param", 1)) and a[1][2] and a[1][2][0][2] == "orders":
                        return False, "refresh_aggregates alters the order list itself (%s)" % e[1]
        for (root, path) in r.state.heap:
            if root == ("obj", ("param", 1)) and path and path[0][2] == "orders":
                return False, "refresh_aggregates writes the order list"
            if root == ("obj", ("param", 1)) and not path:
                # `*self = Self { .. }`: the order list must be carried over unchanged
                whole = r.state.heap[(root, path)]
                kept = get_field(whole, "orders") if isinstance(whole, tuple) and whole[0] in ("agg", "upd") else None
                if kept != ("field", ("val", root), None, "orders"):
                    return False, "refresh_aggregates replaces the snapshot with one whose order list is %s" % short(kept)
    if len(rets) >= 1 and len(backs) == 0:
        return check_refresh_by_sum(ctx, rets, R)
    if len(rets) < 1 or len(backs) < 1:
        return False, "refresh_aggregates has no loop/return structure (%d returns, %d iterations)" % (len(rets), len(backs))
    selfobj = ("obj", ("param", 1))
    want = {"visible_quantity": "display", "hidden_quantity": "reserve"}
    # on return: heap overlay of self.visible_quantity is the havocked accumulator; find which local
    for r in rets:
        st = r.state
        for fld, role in want.items():
            v = _self_field(st, fld)
            if not (isinstance(v, tuple) and v[0] == "havoc"):
                # zero-iteration value is fine too only if it is the accumulator initial; require havoc (loop-carried)
                return False, "self.%s is not assigned from a loop-carried accumulator (got %s)" % (fld, short(v))
        cnt = _self_field(st, "order_count")
        if not (isinstance(cnt, tuple) and cnt[0] == "call" and cnt[1].endswith("len")):
            return False, "self.order_count is not orders.len() (got %s)" % short(cnt)
        if "orders" not in short(cnt):
            return False, "order_count is the length of something else: %s" % short(cnt)
    # iteration: acc' = satadd(acc, role(elem)) where elem comes from Iterator::next over self.orders
    r0 = rets[0]
    acc_local = {}
    for fld in want:
        acc_local[fld] = _self_field(r0.state, fld)   # ('havoc', key, local)
    # initial values (pre-loop) are recorded in the loop marker
    for r in rets + backs:
        loops = [e for e in r.trace if e[0] == "loop"]
        if not loops:
            return False, "no loop"
        pre = loops[0][2]
        for fld, hv in acc_local.items():
            l = hv[2]
            if pre.get(l) != Int(0):
                return False, "accumulator for %s does not start at 0 (starts at %s)" % (fld, short(pre.get(l)))
    for r in backs:
        fr = _loop_frame(r)
        for fld, role in want.items():
            hv = acc_local[fld]
            newv = fr.locals.get(hv[2]) if isinstance(hv[2], int) else r.state.heap.get((hv[2][1], hv[2][2]))
            if not (isinstance(newv, tuple) and newv[0] == "satadd" and newv[1] == hv):
                return False, "accumulator for %s is updated to %s, not saturating_add(acc, ..)" % (fld, short(newv))
            elem_q = newv[2]
            # elem_q must be role(elem): a field of an order whose variant is decided on this path
            okq = False
            for v in R.variants:
                f = (R.display if role == "display" else R.reserve)[v]
                if f is None:
                    if elem_q == Int(0):
                        okq = okq or any(a[0] == "variant" and a[2] == v for a, _ in r.facts.order)
                    continue
                if isinstance(elem_q, tuple) and elem_q[0] == "field" and elem_q[2] == v and elem_q[3] == f:
                    okq = True
                    if "next" not in short(elem_q[1]) and "Iter" not in repr(elem_q[1]):
                        return False, "the summed element does not come from the iteration: %s" % short(elem_q[1])
            if not okq:
                return False, "accumulator for %s adds %s, which is not the %s quantity of the iterated order" % (fld, short(elem_q), role)
    return True, "fold over self.orders: visible/hidden accumulators from 0 by saturating_add(display/reserve), count = len"


def check_refresh_by_sum(ctx, rets, R):
    """accepted idiom B: self.<agg> = self.orders.iter().map(|o| o.<accessor>()).sum(); order_count = orders.len()"""
    selfobj = ("obj", ("param", 1))
    want = {"visible_quantity": "display", "hidden_quantity": "reserve"}
    for r in rets:
        st = r.state
        cnt = _self_field(st, "order_count")
        if not (isinstance(cnt, tuple) and cnt[0] == "call" and cnt[1].endswith("len") and "orders" in short(cnt)):
            return False, "self.order_count is not orders.len() (got %s)" % short(cnt)
        for fld, role in want.items():
            v = _self_field(st, fld)
            if isinstance(v, tuple) and v[0] == "field" and v[3].isdigit() and isinstance(v[1], tuple) and v[1][0] == "call" and v[1][1].endswith("fold"):
                ok, why = _fold_component_ok(ctx, v[1], int(v[3]), role, R)
                if not ok:
                    return False, "self.%s: %s" % (fld, why)
                continue
            if not (isinstance(v, tuple) and v[0] == "call" and v[1].endswith("sum")):
                return False, "self.%s is neither a loop-carried accumulator nor an iterator sum (got %s)" % (fld, short(v))
            if "orders" not in short(v) or ".rev" in short(v):
                return False, "self.%s sums over %s, not over self.orders" % (fld, short(v)[:120])
            clos = [t for t in subterms(v) if isinstance(t, tuple) and t[0] == "agg" and isinstance(t[1], str) and t[1].startswith("closure:")]
            if len(clos) != 1:
                return False, "self.%s: expected one mapping closure" % fld
            cb = ctx.db.bodies.get(clos[0][1][len("closure:"):])
            okc = cb is not None
            if okc:
                for rc in ctx.walker(max_depth=3).walk(cb):
                    if rc.kind != "return":
                        continue
                    val = rc.value
                    vs = [a[2] for a, p in rc.facts.order if a[0] == "variant" and a[2] in R.variants]
                    if not vs:
                        okc = False
                        continue
                    f = (R.display if role == "display" else R.reserve)[vs[0]]
                    if f is None:
                        okc = okc and val == Int(0)
                    else:
                        okc = okc and isinstance(val, tuple) and val[0] == "field" and val[2] == vs[0] and val[3] == f
            if not okc:
                return False, "self.%s does not sum the %s quantity of each order" % (fld, role)
    return True, "iterator sums over self.orders of display/reserve, count = len"


def _fold_component_ok(ctx, foldcall, idx, role, R):
    """idiom C: `self.orders.iter().fold((0, 0), |(v, h), o| (v.saturating_add(o.visible_quantity()), h.saturating_add(..)))`:
    component idx starts at 0 and is updated to satadd/add(acc.idx, role(o))"""
    args = foldcall[2]
    if len(args) != 3:
        return False, "unexpected fold shape"
    it, init, clo = args
    if "orders" not in short(it) or "rev" in short(it):
        return False, "folds over %s, not over self.orders" % short(it)[:80]
    if not (isinstance(init, tuple) and init[0] == "tuple" and idx < len(init[1]) and init[1][idx] == Int(0)):
        return False, "accumulator %d does not start at 0" % idx
    if not (isinstance(clo, tuple) and clo[0] == "agg" and isinstance(clo[1], str) and clo[1].startswith("closure:")):
        return False, "no folding closure"
    cb = ctx.db.bodies.get(clo[1][len("closure:"):])
    if cb is None:
        return False, "closure body not found"
    n = 0
    for rc in ctx.walker(max_depth=3).walk(cb):
        if rc.kind != "return":
            continue
        n += 1
        val = rc.value
        if not (isinstance(val, tuple) and val[0] == "tuple" and idx < len(val[1])):
            return False, "closure returns %s" % short(val)[:80]
        comp = val[1][idx]
        if not (isinstance(comp, tuple) and comp[0] in ("satadd",) and "param" in repr(comp[1])):
            return False, "component %d is updated to %s, not saturating_add(acc, ..)" % (idx, short(comp)[:80])
        q = comp[2]
        vs = [a[2] for a, p in rc.facts.order if a[0] == "variant" and a[2] in R.variants]
        if not vs and isinstance(q, tuple) and q[0] == "field" and q[1] == ("param", 3) and q[3].isdigit() \
                and isinstance(it, tuple) and it[0] == "call" and it[1].endswith("::map") and len(it[2]) == 2:
            # idiom C': the orders are first mapped to a tuple of quantities, the fold adds tuple components
            if comp[1] != ("field", ("param", 2), None, str(idx)):
                return False, "component %d accumulates %s" % (idx, short(comp[1])[:60])
            ok, why = _mapped_component_ok(ctx, it[2][1], int(q[3]), role, R)
            if not ok:
                return False, why
            continue
        if not vs:
            return False, "closure does not discriminate the order"
        f = (R.display if role == "display" else R.reserve)[vs[0]]
        if f is None:
            if q != Int(0):
                return False, "adds %s for a %s order" % (short(q), vs[0])
        elif not (isinstance(q, tuple) and q[0] == "field" and q[2] == vs[0] and q[3] == f):
            return False, "adds %s, not the %s quantity" % (short(q)[:60], role)
    return n > 0, "fold"


def _mapped_component_ok(ctx, clo, k, role, R):
    """the mapping closure `|o| (.., role(o), ..)`: component k is the role quantity of the order on every path"""
    if not (isinstance(clo, tuple) and clo[0] == "agg" and isinstance(clo[1], str) and clo[1].startswith("closure:")):
        return False, "no mapping closure"
    cb = ctx.db.bodies.get(clo[1][len("closure:"):])
    if cb is None:
        return False, "mapping closure body not found"
    n = 0
    for rc in ctx.walker(max_depth=3).walk(cb):
        if rc.kind != "return":
            continue
        n += 1
        val = rc.value
        if not (isinstance(val, tuple) and val[0] == "tuple" and k < len(val[1])):
            return False, "mapping closure returns %s" % short(val)[:80]
        q = val[1][k]
        vs = [a[2] for a, p in rc.facts.order if a[0] == "variant" and a[2] in R.variants]
        if not vs:
            return False, "mapping closure does not discriminate the order"
        f = (R.display if role == "display" else R.reserve)[vs[0]]
        if f is None:
            if q != Int(0):
                return False, "maps a %s order to %s" % (vs[0], short(q))
        elif not (isinstance(q, tuple) and q[0] == "field" and q[2] == vs[0] and q[3] == f):
            return False, "maps the order to %s, not its %s quantity" % (short(q)[:60], role)
    return n > 0, "map"


def constructor_site_ok(L, r, t, ra, allres=()):
    """t: agg PriceLevel{...} on path r"""
    fd = dict(t[3])
    inv = {v: k for k, v in L.counter_role.items()}
    vis, hid, cnt = fd.get(inv["visible"]), fd.get(inv["hidden"]), fd.get(inv["count"])
    q = fd.get(L.queue_field)

    def atomic_new_arg(x):
        if isinstance(x, tuple) and x[0] == "call" and x[1].endswith("::new") and len(x[2]) == 1:
            return x[2][0]
        if isinstance(x, tuple) and x[0] == "eff" :
            return None
        return None
    # find the ATOMIC.new effects that produced the counters
    newargs = {}
    for e in r.events("eff"):
        if e[1] == "ATOMIC.new":
            newargs[e[3]] = e[2][0]
    va, ha, ca = newargs.get(vis), newargs.get(hid), newargs.get(cnt)
    if va is None or ha is None or ca is None:
        return False, "counter fields are not initialised by Atomic::new: %s %s %s" % (short(vis), short(hid), short(cnt))
    qnew = None
    for e in r.events("eff"):
        if e[3] == q:
            qnew = e
    if va == Int(0) and ha == Int(0) and ca == Int(0):
        if qnew is not None and qnew[1] == "Q.new":
            return True, "empty constructor"
        return False, "zero counters but the queue is %s" % short(q)
    # derived constructor: there must be a refresh_aggregates call on the snapshot X before, the counters read from X,
    # and the queue built from X.orders
    calls = [e for e in r.trace if e[0] == "call" and e[1].endswith("refresh_aggregates")]
    if not calls:
        lf = local_fold_ok(L, r, va, ha, ca, q, allres)
        if lf is not None:
            return lf
    if not calls:
        return False, "non-zero counters (%s, %s, %s) without a refresh_aggregates() call on the source" % (short(va), short(ha), short(ca))
    refreshed = calls[-1][3]          # the call term; the snapshot local becomes ('mut', call, 0)
    def from_refreshed(x, fld):
        return isinstance(x, tuple) and x[0] == "field" and x[3] == fld and isinstance(x[1], tuple) and x[1][0] == "mut" and x[1][1] == refreshed
    if not from_refreshed(va, "visible_quantity"):
        return False, "visible counter initialised from %s, not from the refreshed snapshot's visible_quantity" % short(va)
    if not from_refreshed(ha, "hidden_quantity"):
        return False, "hidden counter initialised from %s, not from the refreshed snapshot's hidden_quantity" % short(ha)
    # count: len(orders of refreshed) or refreshed.order_count
    sc = short(ca)
    if not (from_refreshed(ca, "order_count") or ("len" in sc and mentions(ca, refreshed))):
        return False, "order count initialised from %s" % sc
    # queue from exactly the same order list: the constructor's argument must be the `orders` field of the refreshed
    # value itself (or a clone of it) - not a filtered / sorted / extended version of it
    want = ("field", ("mut", refreshed, 0), None, "orders")
    ok = False
    seen_arg = None
    for e in r.trace:
        if e[0] in ("eff", "call") and e[3] == q:
            for a in e[2]:
                a2 = a[1] if isinstance(a, tuple) and a[0] == "refval" else a
                seen_arg = a2
                if a2 == want:
                    ok = True
    if not ok:
        return False, "the queue is built from %s, which is not exactly the refreshed snapshot's order list (the counters describe that list)" % short(seen_arg if seen_arg is not None else q)[:200]
    return True, "derived from refreshed snapshot"


def _strip_ref(x):
    while isinstance(x, tuple) and x and x[0] == "refval":
        x = x[1]
    return x


def local_fold_ok(L, r, va, ha, ca, q, allres):
    """constructor idiom: the counters are folded inside the constructor itself - two accumulators that start at 0 and
    add, per element of ONE list, the element's display / reserve quantity with saturating_add; the count is that
    list's len(); the queue is built from that very list (`OrderQueue::from(list)`) or the list is the queue's own
    listing (`queue.to_vec()`).  None when the counters are not loop-carried accumulators of one loop (not this idiom)."""
    from ..walk import Walker
    R = L.R
    if not all(isinstance(x, tuple) and x and x[0] == "havoc" and len(x) == 3 and isinstance(x[2], int) for x in (va, ha)) or va[1] != ha[1]:
        return None
    K = va[1]
    marks = [e for e in r.trace if e[0] == "loop" and e[1] == K]
    if not marks:
        return None
    pre = marks[0][2]
    if pre.get(va[2]) != Int(0) or pre.get(ha[2]) != Int(0):
        return False, "the accumulators feeding the counters do not start at 0 (%s, %s)" % (short(pre.get(va[2])), short(pre.get(ha[2])))
    its = [(l, v) for l, v in pre.items() if isinstance(l, int) and isinstance(v, tuple) and v and v[0] == "call"
           and (v[1].endswith("into_iter") or v[1].endswith("::iter")) and len(v[2]) == 1]
    if len(its) != 1:
        return False, "cannot identify the one list the constructor's loop iterates (%d iterators)" % len(its)
    it_local, it_term = its[0]
    lst = _strip_ref(it_term[2][0])
    itv = ("havoc", K, it_local)
    backs = [rb for rb in allres if rb.kind == "backedge" and isinstance(rb.detail, tuple) and Walker._site_str(rb.detail) == K]
    seen = set()
    for rb in backs:
        fr = _loop_frame(rb)
        vs = [(a[1], a[2]) for a, p in rb.facts.order if a[0] == "variant" and a[2] in R.variants and mentions(a[1], itv)]
        if len(vs) != 1:
            return False, "an iteration of the constructor's loop does not decide the element's order type"
        o, v = vs[0]
        seen.add(v)
        for role, hv in (("display", va), ("reserve", ha)):
            newv = fr.locals.get(hv[2])
            if not (isinstance(newv, tuple) and newv[0] == "satadd" and newv[1] == hv):
                return False, "the %s accumulator is updated to %s, not saturating_add(acc, ..)" % (role, short(newv)[:120])
            f = (R.display if role == "display" else R.reserve)[v]
            want = Int(0) if f is None else ("field", o, v, f)
            if newv[2] != want:
                return False, "the %s accumulator adds %s for a %s element, not its %s quantity" % (role, short(newv[2])[:100], v, role)
    if seen != set(R.variants):
        return False, "the constructor's loop was analysed for %s only" % sorted(seen)
    # count = len of the same list
    if not (isinstance(ca, tuple) and ca[0] == "call" and ca[1].endswith("::len") and len(ca[2]) == 1 and _strip_ref(ca[2][0]) == lst):
        return False, "the count is %s, not the length of the list the sums run over" % short(ca)[:160]
    # the queue holds exactly that list
    built = isinstance(q, tuple) and q and q[0] in ("call", "eff") and any(
        e[3] == q and any(_strip_ref(a) == lst for a in (e[7] if len(e) > 7 and isinstance(e[7], tuple) else e[2])) for e in r.trace if e[0] in ("call", "eff"))
    if not built and isinstance(q, tuple) and q[0] == "call" and q[1].endswith("::from") and len(q[2]) == 1 and _strip_ref(q[2][0]) == lst:
        built = True
    listing = any(e[0] == "eff" and e[1] == "Q.to_vec" and e[3] == lst and len(e) > 7 and e[7] and _strip_ref(e[7][0]) == q for e in r.trace)
    if not (built or listing):
        return False, "the sums run over %s but the queue is %s: not the same list" % (short(lst)[:100], short(q)[:100])
    return True, "counters folded in the constructor over the list the queue holds"


def mentions(t, sub):
    for s in subterms(t):
        if s == sub:
            return True
    return False


def run(ctx, chk):
    for k, v in RULES.items():
        chk.rule(k, v)
    chk.explanation = (
        "Conservation ledger (engine E1): every CFG path of add_order, match_order (per loop iteration, with "
        "match_against and the accessors inlined) and update_order (all five OrderUpdate arms, recursion inlined) is "
        "walked over MIR with term values; the affine sum of the fetch_add/fetch_sub operands on each aggregate must "
        "equal the display/reserve/count contribution of the orders pushed minus those popped/removed on that path "
        "(Gaussian elimination under the path facts, min/max case split). Constructors are checked structurally "
        "(zero+empty, or refresh_aggregates fold + same order list; re-adding constructors reach only new()+add_order). "
        "This decides the per-operation inductive step for every order type and parameter value; it does not run the code.")
    chk.assumptions = ["order ids unique among resting orders (DashMap::insert overwrites)", "sums fit in 64 bits",
                       "dashmap / crossbeam SegQueue behave as a map and a FIFO"]
    chk.not_decided = ["uniqueness of ids", "overflow of fetch_add when orders are added", "internals of DashMap/SegQueue"]
    L = LevelAnalysis(ctx)
    chk.entry_sets = {"mutators": L.mutators(), "counter_fields": L.counter_role, "queue_field": L.queue_field}
    for name in L.mutators():
        res = check_mutator(ctx, chk, L, name)
        if name == "update_order":
            upd = ctx.db.adt("orders::update::OrderUpdate")
            seen = set()
            for r in res:
                for atom, pol in r.facts.order:
                    if atom[0] == "variant" and atom[1] == ("param", 2):
                        seen.add(atom[2])
            for v in upd["variants"]:
                chk.require(v["name"] in seen, "L0", "update_order:arm:%s" % v["name"], "", "OrderUpdate::%s is not analysed" % v["name"])
    from ..lvlrules import rule_unanalysed_writers
    rule_unanalysed_writers(ctx, chk, L, "L0")
    from ..lvlrules import rule_inplace_same_id
    rule_inplace_same_id(ctx, chk, L, "L0")
    check_constructors(ctx, chk, L)
    rule_readd_every_element(ctx, chk, "L4")
    from ..queue import QueueAnalysis
    Q = QueueAnalysis(ctx)
    Q.rule_to_vec(chk, "L7")
    Q.rule_one_store(chk, "L7")
    # L5
    for ty, nm in (("PriceLevel", "total_quantity"),):
        b = ctx.db.method(ty, nm)
        w = L.walker(max_depth=2)
        for r in w.walk(b):
            if r.kind != "return":
                continue
            loads = {}
            for role, op, operand, e in L.counter_events(r.trace):
                if op == "load":
                    loads[e[3]] = role
            t = r.value
            ok = isinstance(t, tuple) and t[0] == "bin" and t[1] == "Add" and {loads.get(t[2]), loads.get(t[3])} == {"visible", "hidden"}
            chk.require(ok, "L5", b.defp, b.span, "total_quantity returns %s" % short(t), describe_path(r))
    b = ctx.db.method("PriceLevelSnapshot", "total_quantity")
    w = ctx.walker(max_depth=1)
    for r in w.walk(b):
        if r.kind == "return":
            t = r.value
            names = set()
            if isinstance(t, tuple) and t[0] == "bin" and t[1] == "Add":
                for x in (t[2], t[3]):
                    if isinstance(x, tuple) and x[0] == "field":
                        names.add(x[3])
            chk.require(names == {"visible_quantity", "hidden_quantity"}, "L5", b.defp, b.span, "snapshot total_quantity returns %s" % short(t))


def rule_readd_every_element(ctx, chk, rid):
    """TryFrom<PriceLevelData>: the level is PriceLevel::new(data.price) and *every* element of data.orders is handed to
    add_order exactly once, unchanged, in iteration order (no element is skipped, altered or added twice)"""
    db = ctx.db
    b = db.method("PriceLevel", "try_from", trait="TryFrom")
    add = db.method("PriceLevel", "add_order")
    new = db.method("PriceLevel", "new")
    w = ctx.walker(max_depth=4)
    w.no_inline = lambda p: p in (add.defp, new.defp)
    res = w.walk(b)
    n_iter = 0
    key = b.defp + ":re-add"
    for r in res:
        if r.kind in ("unreachable", "panic"):
            continue
        loops = [e for e in r.trace if e[0] == "loop"]
        if r.kind == "backedge":
            seg = r.since_loop()
            adds = [e for e in seg if e[0] == "call" and e[1] == cname_of(add.defp)]
            nexts = [e for e in seg if e[0] == "call" and e[1].endswith("::next") and r.facts.variant.get(e[3]) == "Some"]
            if not nexts:
                continue
            n_iter += 1
            ok = len(adds) == 1 and len(nexts) == 1
            elem = ("field", nexts[0][3], "Some", "0")
            okarg = ok and len(adds[0][2]) == 2 and adds[0][2][1] == elem
            chk.require(ok and okarg, rid, key + ":each-element-once", b.span,
                        "an iteration over the decoded orders calls add_order %d time(s)%s: the rebuilt level would not hold exactly the decoded orders" % (
                            len(adds), "" if not adds or okarg else " with %s instead of the element" % short(adds[0][2][1])[:80]),
                        describe_path(r))
            # the iterator: a loop-carried local initialised before the loop, or (internal iteration) the receiver of for_each
            src = list((loops[-1][2] if loops else {}).values()) + [nexts[0][2][0] if nexts[0][2] else None]
            it_ok = any(isinstance(v, tuple) and v[0] == "call" and v[1].endswith("into_iter") and "orders" in short(v) and ".rev" not in short(v) and "filter" not in short(v)
                        for v in src)
            chk.require(it_ok, rid, key + ":iterates-data-orders", b.span, "the loop does not iterate data.orders itself: %s" % [short(v)[:60] for v in src][:3], describe_path(r))
        elif r.kind == "return":
            v = r.value
            if isinstance(v, tuple) and v[0] == "agg" and v[2] == "Ok":
                news = [e for e in r.trace if e[0] == "call" and e[1] == cname_of(new.defp)]
                okn = len(news) == 1 and "price" in short(news[0][2][0]) and dict(v[3]).get("0") == news[0][3]
                chk.require(okn, rid, key + ":new-with-data-price", b.span, "the level returned is not PriceLevel::new(data.price): %s" % short(dict(v[3]).get("0"))[:80], describe_path(r))
    chk.require(n_iter >= 1, rid, key + ":has-loop", b.span, "no iteration over the decoded orders found")
