"""C07 - cancel/move/amend do what they report; read-only calls are pure."""
from ..level import LevelAnalysis, SELF
from ..queue import QueueAnalysis
from ..terms import unsign, affine, prove_zero, short, Int, agg, subterms
from ..common import describe_path
from ..db import AnchorError
from .. import lvlrules as LR
from .c05 import merge_facts, eq_int

RULES = {
    "U1": "purity: the effect closure of every read-only entry point contains no aggregate/statistics/generator write (fetch_*, store, swap, CAS), no map mutation and no ticket operation",
    "U2": "dispatch: Cancel, and UpdatePrice/UpdatePriceAndQuantity/Replace with a price different from the level's, perform exactly one Q.remove(own id) and return that very result; UpdatePrice to the level's own price is an error without effect; the same-price branches of the other two reach the amend; the branch is decided by comparing the update's price with self.price",
    "U3": "amend: returns Ok(Some(a)) where a is the very value pushed; the pushed value is the removed order with its quantity rewritten by the update's own quantity; no removal is recorded in the statistics",
    "U4": "with_reduced_quantity agrees with the reference: displayed := argument for Standard, PostOnly, IcebergOrder; unchanged otherwise; hidden and every identity field copied",
    "U5": "only it: a removal path touches the queue exactly once (the remove); an amend path exactly lookup(s) of the same id, one remove, one push",
    "U6": "only it / not-found: the queue stores and finds orders under their own OrderId (push inserts under order.id(); remove and find use the id they are given on the same map), pop and remove hand out their own map removal, and no other function - in particular no listing or other read-only API - touches the map or the tickets",
    "U0": "coverage: all five OrderUpdate variants analysed with their expected outcomes",
}

READ_ONLY = [
    ("PriceLevel", "price", None), ("PriceLevel", "visible_quantity", None), ("PriceLevel", "hidden_quantity", None),
    ("PriceLevel", "total_quantity", None), ("PriceLevel", "order_count", None), ("PriceLevel", "stats", None),
    ("PriceLevel", "iter_orders", None), ("PriceLevel", "snapshot", None), ("PriceLevel", "snapshot_package", None),
    ("PriceLevel", "snapshot_to_json", None), ("PriceLevel", "fmt", "Display"), ("PriceLevel", "serialize", "Serialize"),
    ("PriceLevelData", "from", "From<&price_level::level::PriceLevel>"),
    ("OrderQueue", "find", None), ("OrderQueue", "to_vec", None), ("OrderQueue", "len", None), ("OrderQueue", "is_empty", None),
    ("OrderQueue", "fmt", "Display"), ("OrderQueue", "serialize", "Serialize"),
    ("PriceLevelStatistics", "orders_added", None), ("PriceLevelStatistics", "orders_removed", None),
    ("PriceLevelStatistics", "orders_executed", None), ("PriceLevelStatistics", "quantity_executed", None),
    ("PriceLevelStatistics", "value_executed", None), ("PriceLevelStatistics", "average_execution_price", None),
    ("PriceLevelStatistics", "average_waiting_time", None), ("PriceLevelStatistics", "time_since_last_execution", None),
    ("PriceLevelStatistics", "fmt", "Display"), ("PriceLevelStatistics", "serialize", "Serialize"),
    ("PriceLevelSnapshot", "total_quantity", None), ("PriceLevelSnapshot", "iter_orders", None),
    ("PriceLevelSnapshot", "fmt", "Display"), ("PriceLevelSnapshot", "serialize", "Serialize"),
    ("PriceLevelSnapshotPackage", "to_json", None), ("PriceLevelSnapshotPackage", "validate", None),
    ("OrderBookEntry", "price", None), ("OrderBookEntry", "visible_quantity", None), ("OrderBookEntry", "total_quantity", None),
    ("OrderBookEntry", "order_count", None),
]

FORBIDDEN_ATOMIC = {"fetch_add", "fetch_sub", "fetch_and", "fetch_or", "fetch_xor", "fetch_nand", "fetch_max", "fetch_min",
                    "fetch_update", "swap", "compare_exchange", "compare_exchange_weak", "compare_and_swap", "store", "get_mut", "update", "try_update"}
ALLOWED_MAP = {"get", "iter", "len", "is_empty", "contains_key", "new", "default", "hasher", "capacity"}


def amend_kind(v):
    return "Rewrites" if v in ("Standard", "PostOnly", "IcebergOrder") else "Untouched"


def run(ctx, chk):
    _run(ctx, chk)
    if ctx.tier == "thorough":
        from ..witness import run_witnesses
        chk.rule("W", "(thorough) compile_fail witnesses: naming the private state of the level from outside the crate is rejected by rustc (E0616), while the twin using only public accessors type-checks")
        run_witnesses(ctx, chk, "W", ['level'])


def key_of_getmut(e, r):
    """id term used as the key of a MAP.get_mut effect event (argument values are recorded at call time)"""
    av = e[7] if len(e) > 7 else ()
    k = av[1] if len(av) > 1 else (e[2][1] if len(e[2]) > 1 else None)
    while isinstance(k, tuple) and k and k[0] == "refval":
        k = k[1]
    return k


def _run(ctx, chk):
    for k, v in RULES.items():
        chk.rule(k, v)
    chk.explanation = (
        "U1 is an effect analysis over the whole-crate call graph (E2; closed world because the fields are private): "
        "the transitive effect set of each read-only entry point is compared with the mutating alphabet. U2-U5 are "
        "path rules over the MIR of update_order (E1, all five arms, recursion inlined) and reference agreement (E5) "
        "for with_reduced_quantity. Nothing is executed.")
    chk.assumptions = ["Arc reference counts and DashMap read locks are not observable state", "closed world: all fields of PriceLevel/OrderQueue are private (checked)"]
    chk.not_decided = ["'never trades afterwards' beyond exclusive ownership of the removed value"]
    db = ctx.db
    cg = ctx.cg
    L = LevelAnalysis(ctx)
    R = L.R
    # ---------------- U1
    n = 0
    for ty, name, tr in READ_ONLY:
        b = db.method(ty, name, trait=tr)
        n += 1
        bad = []
        for c, m, d, callee, span in cg.effects_closure(b.defp):
            if c == "ATOMIC" and m in FORBIDDEN_ATOMIC:
                bad.append((c, m, d, span))
            elif c == "MAP" and m not in ALLOWED_MAP:
                bad.append((c, m, d, span))
            elif c == "TICKET" and m not in ("len", "is_empty", "new"):
                bad.append((c, m, d, span))
            elif c == "GEN" and m == "next":
                bad.append((c, m, d, span))
        if bad:
            c, m, d, span = bad[0]
            pth = cg.path_to(b.defp, d) or [b.defp, d]
            chk.fail("U1", b.defp, span, "read-only entry point reaches %s.%s in %s" % (c, m, d), ["call path: " + " -> ".join(pth)])
        else:
            chk.ok("U1", b.defp, b.span)
    chk.stats["read_only_entries"] = n
    chk.entry_sets = {"read_only": ["%s::%s%s" % (t, n_, (" (" + tr + ")") if tr else "") for t, n_, tr in READ_ONLY]}
    for f in L.level_adt["variants"][0]["fields"]:
        chk.require(f["vis"] != "pub", "U1", "PriceLevel.%s:private" % f["name"], L.level_adt["span"], "field %s of PriceLevel is pub: the closed-world argument fails" % f["name"])

    # ---------------- U6
    Q6 = QueueAnalysis(ctx)
    Q6.rule_push(chk, "U6", None)
    Q6.rule_remove_find(chk, "U6", seq=True)
    Q6.rule_pop(chk, "U6", "U6", "U6", seq=True)
    Q6.who_may(chk, "U6")
    LR.rule_inplace_same_id(ctx, chk, L, "U6")
    # ---------------- U2 / U5
    seen = LR.rule_removal_returns(ctx, chk, L, "U2", "U2", seq=True)
    b, res, _ = L.paths("update_order")
    fn = b.defp
    upd = db.adt("orders::update::OrderUpdate")
    arg = ("param", 2)
    price_self = ("field", ("val", SELF), None, L.price_field)
    from ..level import seq_view
    for r in res:
        if r.kind != "return":
            continue
        r = seq_view(L, r)
        if r is None:
            continue
        arm = r.facts.variant.get(arg)
        if arm is None:
            continue
        fields = [f["name"] for v in upd["variants"] if v["name"] == arm for f in v["fields"]]
        pf = [f for f in fields if "price" in f]
        qev = L.queue_events(r.trace, r.facts)
        pushes = [x for x in qev if x[0] in ("push", "park", "rpush")]
        takes = [x for x in qev if x[0] in ("take", "rtake")]
        stat_rm = [e for e in r.trace if e[0] == "eff" and e[1] == "STAT.record_order_removed"]
        v = r.value
        is_err = isinstance(v, tuple) and v[0] == "agg" and v[2] == "Err"
        # the branch is decided by comparing the update's price with self.price
        if pf:
            from ..terms import _eq_atom
            at = _eq_atom(("field", arg, arm, pf[0]), price_self)
            pol = r.facts.atoms.get(at)
            chk.require(pol is not None, "U2", "%s:%s:price-test" % (fn, arm), b.span,
                        "the path does not compare %s.%s with self.price" % (arm, pf[0]), describe_path(r))
            if pol is False:
                chk.require(not pushes and not is_err, "U2", "%s:%s:different-price-removes" % (fn, arm), b.span,
                            "with a different price the order must be removed and returned, but the path %s" % ("re-queues it" if pushes else "errors"), describe_path(r))
            if pol is True:
                if arm == "UpdatePrice":
                    chk.require(is_err, "U2", "%s:%s:same-price-rejected" % (fn, arm), b.span,
                                "a price update to the level's own price is not rejected", describe_path(r))
                else:
                    chk.require(not (takes and not pushes), "U2", "%s:%s:same-price-amends" % (fn, arm), b.span,
                                "with the level's own price the order must be amended in place, but the path removes it", describe_path(r))
        # U5 + statistics on removal paths
        if takes and not pushes:
            # a preceding lookup of the same id is the same order sequentially
            take_id = takes[0][2][2][1]
            others = [x[0] for x in qev if x[0] not in ("take",) and not (x[2][1] == "Q.find" and x[2][2][1] == take_id)]
            chk.require(len(takes) == 1 and not others, "U5", "%s:%s:removal" % (fn, arm), b.span, "queue events on a removal path: %s" % [x[0] for x in qev], describe_path(r))
            chk.require(len(stat_rm) == 1, "U2", "%s:%s:stat" % (fn, arm), b.span, "%d record_order_removed calls on a removal path" % len(stat_rm), describe_path(r))
        # ---------------- U3 amend
        if takes and pushes:
            qf = [f for f in fields if "quantity" in f]
            inplace = takes[0][0] == "rtake"
            ok = len(takes) == 1 and len(pushes) == 1 and all(x[0] in ("take", "push", "find", "rtake", "rpush") for x in qev) \
                and (pushes[0][0] == "rpush") == inplace
            chk.require(ok, "U5", "%s:%s:amend" % (fn, arm), b.span, "queue events on an amend path: %s" % [x[0] for x in qev], describe_path(r))
            if not ok:
                continue
            o, o2 = takes[0][1], pushes[0][1]
            ids = {x[2][2][1] if x[2][1].startswith("Q.") else key_of_getmut(x[2], r)
                   for x in qev if x[0] in ("take", "find") or x[2][1] in ("Q.find", "Q.remove")}
            if inplace:
                # the locked entry's key (a reference to the id argument of the in-place primitive)
                ids = {key_of_getmut(takes[0][2], r)} | {x[2][2][1] for x in qev if x[2][1] in ("Q.find", "Q.remove")}
            chk.require(len(ids) == 1, "U5", "%s:%s:amend-same-id" % (fn, arm), b.span, "lookups on an amend path use different ids: %s" % [short(i) for i in ids], describe_path(r))
            inner = dict(v[3]).get("0") if isinstance(v, tuple) and v[0] == "agg" and v[2] == "Ok" else None
            got = dict(inner[3]).get("0") if isinstance(inner, tuple) and inner[0] == "agg" and inner[2] == "Some" else None
            chk.require(got == o2, "U3", "%s:%s:returns-resting" % (fn, arm), b.span,
                        "amend returns %s, not the value it pushed (%s)" % (short(got)[:120], short(o2)[:120]), describe_path(r))
            chk.require(not stat_rm, "U3", "%s:%s:no-removal-stat" % (fn, arm), b.span, "an amend records an order removal", describe_path(r))
            vt = R.variant_of(o, r.facts)
            if vt is None:
                chk.fail("U3", "%s:%s:variant" % (fn, arm), b.span, "variant of the amended order undecided", describe_path(r), undecided=True)
                continue
            newq = ("field", arg, arm, qf[0]) if len(qf) == 1 else None
            d_old, h_old = R.role(o, r.facts, "display"), R.role(o, r.facts, "reserve")
            d_new, h_new = R.role(o2, r.facts, "display"), R.role(o2, r.facts, "reserve")
            want_d = newq if amend_kind(vt) == "Rewrites" else d_old
            ok1, why1 = eq_int(d_new, want_d, r.facts) if want_d is not None else (False, "no quantity field")
            ok2, why2 = eq_int(h_new, h_old, r.facts)
            chk.require(ok1, "U3", "%s:%s:%s:display" % (fn, arm, vt), b.span,
                        "after the amend the order displays %s, expected %s" % (short(d_new), short(want_d)), describe_path(r))
            chk.require(ok2, "U3", "%s:%s:%s:hidden" % (fn, arm, vt), b.span, "the amend changes the hidden quantity to %s" % short(h_new), describe_path(r))
            v2, fd2 = R.view(o2, r.facts)
            if fd2 is not None and o2 != o:
                chk.require(v2 == vt, "U3", "%s:%s:%s:variant" % (fn, arm, vt), b.span, "the amend turns a %s into a %s" % (vt, v2))
                fd = fd2
                for f in R.identity_fields(vt):
                    chk.require(unsign(fd.get(f)) == ("field", o, vt, f), "U3", "%s:%s:%s:%s" % (fn, arm, vt, f), b.span,
                                "identity field %s of the amended order is %s" % (f, short(fd.get(f))), describe_path(r))
            else:
                chk.require(o2 == o, "U3", "%s:%s:%s:same" % (fn, arm, vt), b.span, "amended order is %s" % short(o2)[:100])
    # U0 coverage
    expect = {"UpdatePrice": {"remove", "err"}, "UpdateQuantity": {"amend"}, "UpdatePriceAndQuantity": {"remove", "amend"},
              "Cancel": {"remove"}, "Replace": {"remove", "amend"}}
    for v in upd["variants"]:
        nm = v["name"]
        if nm in expect:
            chk.require(expect[nm] <= seen.get(nm, set()), "U0", "%s:%s" % (fn, nm), b.span,
                        "OrderUpdate::%s: outcomes found %s, expected %s" % (nm, sorted(seen.get(nm, set())), sorted(expect[nm])))
        else:
            chk.fail("U0", "%s:%s:unknown-variant" % (fn, nm), b.span, "OrderUpdate::%s is not covered by the dispatch table" % nm)

    # ---------------- U4 with_reduced_quantity vs reference
    wb = db.method("OrderType", "with_reduced_quantity")
    refb = ctx.ref.one("ref_amend")
    subj = ("val", ("obj", ("param", 1)))
    newq = ("param", 2)
    w = ctx.walker()
    rets = [r for r in w.walk(wb) if r.kind == "return"]
    for V in R.variants:
        ps = [r for r in rets if r.facts.variant.get(subj) == V]
        chk.require(len(ps) >= 1, "U4", "%s:%s:covered" % (wb.defp, V), wb.span, "no path for variant %s" % V)
        disp = ("field", subj, V, R.display[V])
        hid = ("field", subj, V, R.reserve[V]) if R.reserve[V] else Int(0)
        wr = ctx.walker(db=ctx.ref)
        rr = [q for q in wr.walk(refb, args=[agg("AmendKind", amend_kind(V), []), disp, hid, newq]) if q.kind == "return"]
        for p in ps:
            o2 = p.value
            v2, fd2 = R.view(o2, p.facts)
            if o2 == subj:
                d2, h2 = disp, hid
            elif fd2 is not None:
                if not chk.require(v2 == V, "U4", "%s:%s:variant" % (wb.defp, V), wb.span, "returns a %s" % v2):
                    continue
                fd = fd2
                for f in R.identity_fields(V):
                    chk.require(unsign(fd.get(f)) == ("field", subj, V, f), "U4", "%s:%s:%s" % (wb.defp, V, f), wb.span,
                                "field %s is %s, expected self.%s" % (f, short(fd.get(f)), f))
                d2, h2 = R.role(o2, p.facts, "display"), R.role(o2, p.facts, "reserve")
            else:
                chk.fail("U4", "%s:%s:shape" % (wb.defp, V), wb.span, "returns %s" % short(o2)[:100], undecided=True)
                continue
            for q in rr:
                rd, rh = q.value[1]
                ok1, _ = eq_int(d2, rd, p.facts)
                ok2, _ = eq_int(h2, rh, p.facts)
                chk.require(ok1 and ok2, "U4", "%s:%s" % (wb.defp, V), wb.span,
                            "with_reduced_quantity gives (display %s, hidden %s), reference (%s, %s)" % (short(d2), short(h2), short(rd), short(rh)))
