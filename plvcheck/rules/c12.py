"""C12 - concurrent readers never observe wrapped aggregates: ordering rules."""
from ..level import LevelAnalysis
from .. import lvlrules as LR

RULES = {
    "B1": "raise before publish: on every path no aggregate fetch_add follows the Q.push of the same segment",
    "B2": "lower after take: every aggregate fetch_sub is preceded on its path by the pop/remove that took the order, and its operand derives from that owned order (not from a find/load)",
    "B3": "bounded decrements: a fetch_sub never exceeds the counted contribution of the owned order (its display/reserve, consumed/hidden_reduced, or old-new under new<old)",
    "B4": "aggregates are only touched by atomic fetch_add/fetch_sub/load inside the mutators",
    "B6": "single hand-out: OrderQueue::pop and ::remove return the payload of their own DashMap::remove (find-then-remove would hand one order to two threads, and both would lower the aggregates); nobody else touches the map or the tickets",
    "B5": "each operation's counter deltas equal the contribution of the orders it owns (the invariant counter >= entries + in-flight is only inductive if every step is balanced)",
}


def run(ctx, chk):
    for k, v in RULES.items():
        chk.rule(k, v)
    chk.explanation = (
        "Ordering/effect rules over MIR paths (E1). Invariant argued on paper (DESIGN C12): counter >= sum over map "
        "entries + counted remainder of orders in flight. B1 keeps it when an order is published, B2/B3 when it is "
        "taken, B4 makes each step atomic; then no reader can see a value below zero (wrapped) or above the total "
        "supplied. The rules are evaluated on every path of add_order / match_order / update_order with "
        "match_against inlined. No interleaving is explored: the deciding step is the order and provenance of effects in the source.")
    chk.assumptions = ["sequentially consistent atomics (AcqRel RMWs are not analysed for weaker orderings)",
                       "C05's bounds on consumed / hidden_reduced (checked by C05's own rules)"]
    chk.not_decided = ["non-SC reorderings"]
    L = LevelAnalysis(ctx)
    LR.rule_order_of_updates(ctx, chk, L, "B1", "B2")
    LR.rule_owned_operands(ctx, chk, L, "B2")
    LR.rule_bounded_decrements(ctx, chk, L, "B3")
    LR.rule_rmw_only(ctx, chk, L, "B4")
    LR.rule_balance_conc(ctx, chk, L, "B5")
    LR.rule_unanalysed_writers(ctx, chk, L, "B5")
    from ..queue import QueueAnalysis
    Q = QueueAnalysis(ctx)
    Q.rule_pop(chk, "B6", "B6", "B6")
    Q.rule_remove_find(chk, "B6")
    Q.who_may(chk, "B6")
