"""C17 - JSON encodings round-trip: serde table and attribute agreement."""
import re

from ..terms import short, subterms, is_int
from ..common import describe_path
from ..db import AnchorError, strip_generics
from ..panics import lit_of
from ..effects import make_effect_fn
from .c09 import argv

RULES = {
    "J1": "hand-written pairs (PriceLevelSnapshot, PriceLevelStatistics, OrderId, OrderQueue): keys written by Serialize = keys accepted by the visitor = struct fields, with the same key->field binding; OrderId writes to_string() and reads through from_str; the queue writes and reads a sequence of the same element type",
    "J2": "attribute agreement on derived enums: for every variant with rename(serialize = S), S is accepted on input (the variant's own name, rename(deserialize) or an alias) and no two variants accept a common name; no tag/untagged/content attribute (TimeInForce::Gtd stays externally tagged)",
    "J3": "no skip*/flatten/with/default/getter/from/into asymmetry on any type in the closure of the listed types",
    "J4": "integer fidelity: no float-typed field in the listed types and no integer->float cast in a hand-written serializer",
    "J5": "checksum stability: the serialization closure of PriceLevelSnapshot iterates only order-preserving containers (no DashMap iteration), so re-serializing a decoded package reproduces the checksummed bytes",
    "J6": "PriceLevel uses the same intermediate type (PriceLevelData) in both directions; TryFrom<PriceLevelData> hands every decoded order to add_order exactly once, unchanged, on a level created with the decoded price",
    "J0": "coverage: every listed type has a Serialize and a Deserialize impl",
}

LISTED = ["OrderType", "OrderUpdate", "OrderId", "Side", "TimeInForce", "Transaction", "MatchResult", "PriceLevel", "PriceLevelSnapshot",
          "PriceLevelSnapshotPackage", "PriceLevelStatistics", "TransactionList", "PegReferenceType", "PriceLevelData", "OrderQueue"]
ASYM = ("skip", "flatten", "with", "default", "getter", "from", "into", "try_from", "remote", "bound", "borrow", "other", "transparent")


def serde_items(attr_text):
    """top-level items inside #[serde(...)]"""
    m = re.match(r"#\[serde\((.*)\)\]\s*$", attr_text.strip(), re.S)
    if not m:
        return []
    body = m.group(1)
    items, depth, cur = [], 0, ""
    for ch in body:
        if ch == "(":
            depth += 1
        elif ch == ")":
            depth -= 1
        if ch == "," and depth == 0:
            items.append(cur.strip())
            cur = ""
        else:
            cur += ch
    if cur.strip():
        items.append(cur.strip())
    return items


LOSSY = {"filter", "and_then", "xor", "zip", "take", "replace", "take_if", "min", "max", "clamp", "saturating_add", "saturating_sub",
         "wrapping_add", "wrapping_sub", "checked_add", "checked_sub", "abs_diff", "rem_euclid", "pow", "next_power_of_two"}


def _lossy_wrapper(term, slot):
    """name of a value-changing operation between a decoded slot and the field it feeds (`slot.filter(..)`, `slot + 1`,
    `min(slot, k)`), or None: the field of the rebuilt value must be the decoded value itself (or a default when the key
    is absent), not a function of it"""
    def rec(t, seen):
        # -> (slot found below t, first lossy operation on the way down)
        if t == slot:
            return True, seen
        if not isinstance(t, tuple):
            return False, None
        here = seen
        if here is None and t and t[0] == "call" and isinstance(t[1], str) and t[1].split("::")[-1] in LOSSY:
            here = t[1].split("::")[-1]
        elif here is None and t and t[0] in ("bin", "satadd", "satsub"):
            here = "arithmetic (%s)" % (t[1] if t[0] == "bin" and isinstance(t[1], str) else t[0])
        for x in t:
            if isinstance(x, tuple):
                found, name = rec(x, here)
                if found and name:
                    return True, name
        return False, None
    return rec(term, None)[1]


def visitor_table(ctx, vs_body, vm_body, struct_adt, lossy=None):
    """literal key -> struct field through (visit_str literal -> Field variant) and (visit_map arm -> slot -> field)"""
    w = ctx.walker(max_depth=3)
    lit_to_variant = {}
    rejects_unknown = False
    for r in w.walk(vs_body):
        if r.kind != "return":
            continue
        v = r.value
        if isinstance(v, tuple) and v[0] == "agg" and v[2] == "Ok":
            inner = dict(v[3])["0"]
            lits = [lit_of(a[1]) or lit_of(a[2]) for a, p in r.facts.order if a[0] == "eq" and p is True and (lit_of(a[1]) or lit_of(a[2]))]
            if isinstance(inner, tuple) and inner[0] == "agg" and len(lits) == 1:
                lit_to_variant[lits[0]] = inner[2]
        elif "unknown_field" in repr(v):
            rejects_unknown = True
    w = ctx.walker(max_depth=2)
    res = w.walk(vm_body)
    variant_to_slot = {}
    for r in res:
        if r.kind != "backedge" or r.detail[1] != vm_body.defp:
            continue
        marks = [e for e in r.trace if e[0] == "loop" and e[3] == vm_body.defp]
        if not marks:
            continue
        key = marks[0][1]
        fr = r.state.frames[0]
        # which Field variant was matched in this iteration
        vs = [a[2] for a, p in r.facts.order if a[0] == "variant" and a[2] in set(lit_to_variant.values())]
        if len(vs) != 1:
            continue
        for l, pre in marks[0][2].items():
            if not isinstance(l, int):
                continue    # loop-carried heap field, not a local
            if fr.locals.get(l) != ("havoc", key, l) and "Option<" in fr.body.locals[l]["ty"]:
                nv = fr.locals.get(l)
                if isinstance(nv, tuple) and nv[0] == "agg" and nv[2] == "Some":
                    variant_to_slot.setdefault(vs[0], set()).add(l)
    slot_to_field = {}
    fields = [f["name"] for f in struct_adt["variants"][0]["fields"]]
    n_ok = 0
    ok_paths, field_slots = [], {}
    for r in res:
        if r.kind != "return":
            continue
        v = r.value
        if not (isinstance(v, tuple) and v[0] == "agg" and v[2] == "Ok"):
            continue
        inner = dict(v[3])["0"]
        if not (isinstance(inner, tuple) and inner[0] == "agg"):
            continue
        n_ok += 1
        # values may be wrapped in Atomic::new effects: look through the trace for their arguments
        new_args = {}
        for e in r.trace:
            if e[0] in ("call", "eff") and str(e[1]).endswith("new") and e[2]:
                new_args[e[3]] = e[2][0]
        ok_paths.append((r, [(f, new_args.get(t, t)) for f, t in inner[3]]))
        for f, t in inner[3]:
            t2 = new_args.get(t, t)
            for s in subterms(t2):
                if isinstance(s, tuple) and s[0] == "havoc" and len(s) == 3 and isinstance(s[2], int):
                    slot_to_field.setdefault(s[2], set()).add(f)
                    field_slots.setdefault(f, set()).add(s)
                    w = _lossy_wrapper(t2, s)
                    if w and lossy is not None:
                        lossy.setdefault(f, w)
    # a key that was present decides its field: on a path where the slot is known to be Some, the field must carry the
    # slot's payload (a default taken although the key was there - `slot.filter(cond).unwrap_or(default)` - loses it)
    if lossy is not None:
        for r, fields in ok_paths:
            for f, t2 in fields:
                for sl in field_slots.get(f, ()):
                    if r.facts.variant.get(sl) == "Some" and not any(x == sl for x in subterms(t2)):
                        lossy.setdefault(f, "a default although its key was present (the decoded value is dropped on a condition)")
    table = {}
    for lit, var in lit_to_variant.items():
        fs = set()
        for l in variant_to_slot.get(var, ()):
            fs |= slot_to_field.get(l, set())
        table[lit] = sorted(fs)
    return table, rejects_unknown, n_ok



def rule_serde_attrs(ctx, chk, j2, j3):
    """derived serde impls: attribute agreement (shared with C10/C11/C19, whose JSON routes go through the same types)"""
    db = ctx.db
    by_owner = {}
    for a in db.attrs:
        if not a["text"].startswith("#[serde"):
            continue
        by_owner.setdefault((a["adt"], a["kind"], a["owner"]), []).append(a)
    accepted = {}
    for (adt, kind, owner), attrs in sorted(by_owner.items()):
        items = [i for a in attrs for i in serde_items(a["text"])]
        span = attrs[0]["span"]
        key = "%s.%s" % (adt, owner) if kind != "item" else owner
        for it in items:
            name = re.split(r"[=(\s]", it, 1)[0]
            if name in ("rename", "alias", "rename_all", "deny_unknown_fields", "crate", "expecting"):
                continue
            if name in ("tag", "untagged", "content"):
                chk.fail(j2, key + ":" + name, span, "serde(%s) changes the enum representation (externally tagged expected)" % it)
                continue
            if name.startswith(ASYM) or any(name.startswith(x) for x in ("serialize_with", "deserialize_with", "skip_serializing", "skip_deserializing")):
                chk.fail(j3, key + ":" + name, span, "serde(%s) can make serialization and deserialization disagree" % it)
                continue
            chk.fail(j3, key + ":" + name + ":unknown", span, "unrecognised serde attribute %s" % it, undecided=True)
        if kind == "variant":
            ser_name, de_names = owner, {owner}
            for it in items:
                m = re.match(r"rename\s*\(\s*serialize\s*=\s*\"([^\"]*)\"\s*\)", it)
                if m:
                    ser_name = m.group(1)
                m = re.match(r"rename\s*\(\s*deserialize\s*=\s*\"([^\"]*)\"\s*\)", it)
                if m:
                    de_names = (de_names - {owner}) | {m.group(1)}
                m = re.match(r"rename\s*=\s*\"([^\"]*)\"", it)
                if m:
                    ser_name = m.group(1)
                    de_names = (de_names - {owner}) | {m.group(1)}
                m = re.match(r"rename\s*\(\s*serialize\s*=\s*\"([^\"]*)\"\s*,\s*deserialize\s*=\s*\"([^\"]*)\"\s*\)", it)
                if m:
                    ser_name = m.group(1)
                    de_names = (de_names - {owner}) | {m.group(2)}
                m = re.match(r"alias\s*=\s*\"([^\"]*)\"", it)
                if m:
                    de_names.add(m.group(1))
            chk.require(ser_name in de_names, j2, key, span, "variant %s is written as %r but reading accepts only %s" % (owner, ser_name, sorted(de_names)))
            accepted.setdefault(adt, {})[owner] = de_names
    for adt, m in accepted.items():
        names = {}
        for v, ns in m.items():
            for n in ns:
                names.setdefault(n, []).append(v)
        for n, vs in names.items():
            chk.require(len(vs) == 1, j2, "%s:ambiguous:%s" % (adt, n), "", "name %r is accepted for variants %s" % (n, vs))
    chk.stats["serde_attr_owners"] = len(by_owner)
    chk.require(len(by_owner) >= 7, j2, "attributes-found", "", "only %d attributed items found (Side/TimeInForce variants expected)" % len(by_owner))


def rule_order_id_json(ctx, chk, rid):
    """OrderId's JSON form is its text form: Serialize writes to_string(), Deserialize reads an owned string through
    from_str, and that Display/FromStr pair round-trips (C16's table rules applied to OrderId)"""
    db = ctx.db
    cg = ctx.cg
    # OrderId
    sb = db.method("OrderId", "serialize", trait="Serialize")
    w = ctx.walker(max_depth=1)
    for r in w.walk(sb):
        if r.kind != "return":
            continue
        ss = [e for e in r.trace if e[0] == "call" and e[1].endswith("serialize_str")]
        ok = len(ss) == 1 and "to_string" in short(argv(ss[0])[1]) and any(s == ("ref", ("pl", ("obj", ("param", 1)), ()), False) for s in subterms(argv(ss[0])[1]))
        if not ss:
            # `serializer.collect_str(self)`: serde's documented equivalent of serialize_str(&self.to_string())
            cs = [e for e in r.trace if e[0] == "call" and e[1].endswith("collect_str")]
            ok = len(cs) == 1 and argv(cs[0])[1] == ("ref", ("pl", ("obj", ("param", 1)), ()), False)
            ss = cs
        chk.require(ok, rid, "OrderId:writes-to_string", sb.span, "OrderId serializes %s" % [short(argv(e)[1])[:80] for e in ss])
    dbo = db.method("OrderId", "deserialize", trait="Deserialize")
    reach = cg.reach([dbo.defp])
    chk.require(db.method("OrderId", "from_str", trait="FromStr").defp in reach, rid, "OrderId:reads-from_str", dbo.span, "OrderId::deserialize does not go through from_str")
    chk.require(db.method("OrderId", "fmt", trait="Display").defp in cg.reach([sb.defp]), rid, "OrderId:writes-display", sb.span, "OrderId::serialize does not use its Display form")
    from .c16 import check_order_id_text_pair
    check_order_id_text_pair(ctx, chk, rid)
    # the string is taken by value: `<&str>::deserialize` only works when the deserializer can lend the text
    # (serde_json::from_str on unescaped input), not for from_reader / from_value / escaped strings
    for d in sorted(reach):
        bd = db.bodies.get(d)
        if bd is None:
            continue
        for bb, t in bd.calls():
            c = t["callee"]
            if c and c["name"] == "deserialize" and c.get("trait") and "Deserialize" in c["trait"]:
                g0 = (c.get("gargs") or [""])[0].replace(" ", "")
                chk.require(not (g0.startswith("&") and ("str" in g0 or "[u8]" in g0)), rid, "OrderId:borrowed-deserialize", t["span"],
                            "OrderId::deserialize reads a borrowed %s: fails for every deserializer that cannot lend its input (from_reader, from_value, escaped text)" % g0)

def run(ctx, chk):
    for k, v in RULES.items():
        chk.rule(k, v)
    chk.explanation = (
        "Table and attribute agreement (E3): for the hand-written serde impls the written keys (serialize_field calls "
        "and the fields feeding them, read from MIR) are compared with the visitor's literal->variant->slot->field chain "
        "(path-sensitive walk of visit_str / visit_map); for derived impls the #[serde(...)] attributes exported from "
        "the expanded AST are checked for serialize/deserialize asymmetries. serde's derive and serde_json are trusted "
        "to be mutually inverse for symmetric attributes. No value is serialized.")
    chk.assumptions = ["serde derive output is symmetric when no asymmetric attribute is present", "serde_json prints and parses u64/i64/usize exactly",
                       "SHA-256 over identical bytes is identical (package re-validation)"]
    chk.not_decided = ["serde / serde_json internals"]
    db = ctx.db
    cg = ctx.cg
    # ---------------- J0
    for ty in LISTED:
        for tr, nm in (("Serialize", "serialize"), ("Deserialize", "deserialize")):
            try:
                db.method(ty, nm, trait=tr)
                chk.ok("J0", "%s:%s" % (ty, tr), "")
            except AnchorError:
                chk.fail("J0", "%s:%s" % (ty, tr), "", "%s has no %s impl" % (ty, tr))
    # ---------------- J1 hand-written struct pairs
    for ty, visitor_hint in (("PriceLevelSnapshot", "::PriceLevelSnapshot as "), ("PriceLevelStatistics", "::PriceLevelStatistics as ")):
        adt = db.adt(ty)
        sfields = [f["name"] for f in adt["variants"][0]["fields"]]
        sb = db.method(ty, "serialize", trait="Serialize")
        w = ctx.walker(max_depth=2)
        w.effect_of = make_effect_fn({"ATOMIC"})
        wkeys = None
        for r in w.walk(sb):
            if r.kind != "return":
                continue
            sf = [e for e in r.trace if e[0] == "call" and e[1].endswith("serialize_field")]
            ends = [e for e in r.trace if e[0] == "call" and e[1].endswith("::end")]
            if not ends or any(r.facts.variant.get(e[3]) == "Err" for e in sf):
                continue
            keys = {}
            loads = {e[3]: e[2][0] for e in r.trace if e[0] == "eff" and e[1] == "ATOMIC.load"}
            for e in sf:
                k = argv(e)[1]
                val = argv(e)[2]
                kk = lit_of(k)
                fed = set()
                for s in subterms(val):
                    if isinstance(s, tuple) and s[0] == "pl" and s[1] == ("obj", ("param", 1)) and s[2]:
                        fed.add(s[2][0][2])
                    if s in loads:
                        ref = loads[s]
                        if isinstance(ref, tuple) and ref[0] == "ref" and ref[1][1] == ("obj", ("param", 1)) and ref[1][2]:
                            fed.add(ref[1][2][0][2])
                keys[kk] = sorted(fed)
                for s in subterms(val):
                    if isinstance(s, tuple) and s and s[0] == "cast" and ("f64" in str(s[1]) or "f32" in str(s[1])):
                        chk.fail("J4", "%s:%s:float-cast" % (ty, kk), e[5], "value of key %s is cast to a float before serialization" % kk)
            wkeys = keys
            chk.require(set(keys) == set(sfields), "J1", ty + ":written-keys", sb.span, "keys written %s vs fields %s" % (sorted(str(k) for k in keys), sorted(sfields)), describe_path(r))
            for k, fed in keys.items():
                chk.require(fed == [k], "J1", "%s:%s:writer-binding" % (ty, k), sb.span, "key %s is fed by field(s) %s" % (k, fed), describe_path(r))
        chk.require(wkeys is not None, "J1", ty + ":serialize-analysed", sb.span, "no complete serialization path")
        vs, vm = db.serde_visitors(ty)
        if not chk.require(len(vs) == 1 and len(vm) == 1, "J1", ty + ":visitor", "", "visitor bodies found: %d/%d" % (len(vs), len(vm))):
            continue
        lossy = {}
        table, rejects, n_ok = visitor_table(ctx, vs[0], vm[0], adt, lossy)
        for f_, w_ in sorted(lossy.items()):
            chk.fail("J1", "%s:%s:decoded-value-altered" % (ty, f_), vm[0].span, "field %s of the rebuilt value is not the decoded value of its key: it passes through %s" % (f_, w_))
        chk.require(set(table) == set(sfields), "J1", ty + ":read-keys", vs[0].span, "keys accepted %s vs fields %s" % (sorted(table), sorted(sfields)))
        for k, fs in sorted(table.items()):
            chk.require(fs == [k], "J1", "%s:%s:reader-binding" % (ty, k), vm[0].span, "key %s is stored into field(s) %s" % (k, fs))
        chk.require(rejects, "J1", ty + ":unknown-key-rejected", vs[0].span, "unknown keys are not rejected")
        wv = ctx.walker(max_depth=2)
        for r in wv.walk(vm[0]):
            for e in r.trace:
                if e[0] == "call" and any(x in e[1] for x in ("::filter", "::skip", "::take", "::rev", "dedup", "retain", "truncate", "sort", "step_by", "filter_map", "swap_remove")):
                    chk.fail("J1", "%s:decoded-list-altered" % ty, e[5], "the visitor alters the decoded element list with %s" % e[1], describe_path(r))
        chk.sample({"type": ty, "written": wkeys, "read": table})
    rule_order_id_json(ctx, chk, "J1")
    # OrderQueue
    qs = db.method("OrderQueue", "serialize", trait="Serialize")
    w = ctx.walker(max_depth=2)
    w.effect_of = make_effect_fn({"MAP", "TICKET"})
    iters = 0
    for r in w.walk(qs):
        el = [e for e in r.trace if e[0] == "call" and e[1].endswith("serialize_element")]
        if r.kind == "backedge":
            iters += 1
            chk.require(len(el) == 1 and "MAP.iter" in repr(r.trace), "J1", "OrderQueue:element-per-entry", qs.span, "an iteration serializes %d elements" % len(el))
    chk.require(iters >= 1, "J1", "OrderQueue:serialize-loop", qs.span, "no element loop")
    vseq = db.method("OrderQueueVisitor", "visit_seq", trait="Visitor")
    ne = [t for bb, t in vseq.calls() if t["callee"] and t["callee"]["name"] == "next_element"]
    chk.require(len(ne) == 1 and any("OrderType<()>" in g for g in ne[0]["callee"]["gargs"]), "J1", "OrderQueue:element-type", vseq.span,
                "visit_seq reads elements of %s" % [t["callee"]["gargs"] for t in ne])
    # ---------------- J2 / J3 attributes
    rule_serde_attrs(ctx, chk, "J2", "J3")
    # ---------------- J4 no float fields
    for ty in LISTED:
        try:
            adt = db.adt(ty)
        except AnchorError:
            continue
        for v in adt["variants"]:
            for f in v["fields"]:
                chk.require(not re.search(r"\bf(32|64)\b", f["ty"]), "J4", "%s.%s" % (ty, f["name"]), adt["span"], "float-typed field %s: %s" % (f["name"], f["ty"]))
    # ---------------- J5
    ssnap = db.method("PriceLevelSnapshot", "serialize", trait="Serialize")
    eff = [(c, m, d) for c, m, d, callee, sp in cg.effects_closure(ssnap.defp) if c == "MAP" and m in ("iter", "iter_mut", "into_iter")]
    chk.require(not eff, "J5", ssnap.defp, ssnap.span, "snapshot serialization iterates a hash map: %s" % eff)
    # ---------------- J6
    from .c01 import rule_readd_every_element
    rule_readd_every_element(ctx, chk, "J6")
    ps = db.method("PriceLevel", "serialize", trait="Serialize")
    pd = db.method("PriceLevel", "deserialize", trait="Deserialize")
    dser = db.method("PriceLevelData", "serialize", trait="Serialize")
    dde = db.method("PriceLevelData", "deserialize", trait="Deserialize")
    chk.require(dser.defp in cg.reach([ps.defp]) or any("PriceLevelData" in x for x in cg.external.get(ps.defp, ())), "J6", "PriceLevel:serialize-via-data", ps.span,
                "PriceLevel::serialize does not go through PriceLevelData")
    chk.require(dde.defp in cg.reach([pd.defp]), "J6", "PriceLevel:deserialize-via-data", pd.span, "PriceLevel::deserialize does not go through PriceLevelData")
    fr = db.method("PriceLevelData", "from", trait="From<&price_level::level::PriceLevel>")
    chk.require(fr.defp in cg.reach([ps.defp]), "J6", "PriceLevel:data-from-level", ps.span, "PriceLevel::serialize does not build PriceLevelData from the level")
    # PriceLevelData::from copies every field from the like-named accessor
    w = ctx.walker(max_depth=2)
    w.effect_of = make_effect_fn({"ATOMIC", "Q"})
    for r in w.walk(fr):
        if r.kind != "return":
            continue
        v = r.value
        fd = dict(v[3]) if isinstance(v, tuple) and v[0] == "agg" else {}
        loads = {}
        for e in r.trace:
            if e[0] == "eff" and e[1] == "ATOMIC.load":
                ref = e[2][0]
                loads[e[3]] = ref[1][2][0][2] if isinstance(ref, tuple) and ref[0] == "ref" and ref[1][2] else None
        for f in ("visible_quantity", "hidden_quantity", "order_count"):
            chk.require(loads.get(fd.get(f)) == f, "J6", "PriceLevelData::from:" + f, fr.span, "data.%s is %s" % (f, short(fd.get(f))))
        chk.require("to_vec" in short(fd.get("orders")) or "Q.to_vec" in repr(fd.get("orders")), "J6", "PriceLevelData::from:orders", fr.span, "data.orders is %s" % short(fd.get("orders"))[:100])
