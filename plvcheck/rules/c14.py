"""C14 - transaction ids unique across threads and reproducible."""
from ..effects import make_effect_fn
from ..level import LevelAnalysis
from ..terms import short, Int, subterms
from ..common import describe_path
from .c06 import main_loop_info

RULES = {
    "G1": "one atomic step: UuidGenerator::next performs exactly one atomic read-modify-write, fetch_add(1) on its counter, and returns Uuid::new_v5(&self.namespace, bytes(to_string(<payload of that fetch_add>)))",
    "G2": "single writer: the counter field is private; inside the crate it is written only by `new` (Atomic::new(0)), the derived Deserialize and `next`; `new` stores the namespace argument unchanged",
    "G3": "no nondeterminism: the effect closures of `next` and `new` contain no clock, random or thread-id source",
    "G4": "one draw per transaction: every Transaction::new in match_order takes its id from a next() of the generator argument drawn in the same loop iteration",
}


def run(ctx, chk):
    _run(ctx, chk)
    if ctx.tier == "thorough":
        from ..witness import run_witnesses
        chk.rule("W", "(thorough) compile_fail witnesses: naming the private state of the generator from outside the crate is rejected by rustc (E0616), while the twin using only public accessors type-checks")
        run_witnesses(ctx, chk, "W", ['generator'])


def _run(ctx, chk):
    for k, v in RULES.items():
        chk.rule(k, v)
    chk.explanation = (
        "Provenance and effect rules over the MIR of UuidGenerator::{new,next} (E1) and their call-graph closure (E2): "
        "uniqueness under every interleaving follows from a single fetch_add per call (each call observes a distinct "
        "counter value) and an injective name (the decimal string of that value) given no SHA-1 collision; reproducibility "
        "from the absence of any nondeterministic source and an unchanged namespace. No schedule is explored.")
    chk.assumptions = ["SHA-1 (UUID v5) has no collision on the decimal strings of distinct u64", "the 64-bit counter does not wrap",
                       "u64::to_string is injective"]
    db = ctx.db
    nb = db.method("UuidGenerator", "next")
    w = ctx.walker(max_depth=2)
    w.effect_of = make_effect_fn({"ATOMIC", "NONDET"})
    res = w.walk(nb)
    rets = [r for r in res if r.kind == "return"]
    chk.require(len(rets) >= 1 and all(r.kind == "return" for r in res), "G1", nb.defp + ":paths", nb.span, "paths: %s" % [r.kind for r in res])
    selfo = ("obj", ("param", 1))
    for r in rets:
        at = [e for e in r.trace if e[0] == "eff" and e[1].startswith("ATOMIC.")]
        ok = len(at) == 1 and at[0][1] == "ATOMIC.fetch_add" and at[0][2][1] == Int(1)
        ref = at[0][2][0] if at else None
        fld = ref[1][2][0][2] if ok and isinstance(ref, tuple) and ref[0] == "ref" and ref[1][1] == selfo and ref[1][2] else None
        chk.require(ok and fld is not None, "G1", nb.defp + ":one-fetch_add", nb.span,
                    "next() performs %s" % [(e[1], [short(a) for a in e[2][1:2]]) for e in at], describe_path(r))
        if not ok:
            continue
        ctr = at[0][3]
        v = r.value
        okv = isinstance(v, tuple) and v[0] == "call" and v[1].endswith("new_v5") and len(v[2]) == 2
        if not chk.require(okv, "G1", nb.defp + ":new_v5", nb.span, "next() returns %s" % short(v)[:200], describe_path(r)):
            continue
        ns, name = v[2]
        nsf = ns[1][2][0][2] if isinstance(ns, tuple) and ns[0] == "ref" and ns[1][1] == selfo and len(ns[1][2]) == 1 else None
        if nsf is None and isinstance(ns, tuple) and ns[0] == "refval" and isinstance(ns[1], tuple) and ns[1][0] == "field" \
                and ns[1][1] in (("val", selfo), selfo) and ns[1][2] is None:
            nsf = ns[1][3]      # `let namespace = self.namespace;` (a Copy field read into a local) then `&namespace`
        chk.require(nsf is not None and nsf != fld, "G1", nb.defp + ":namespace", nb.span, "namespace argument is %s" % short(ns), describe_path(r))
        # name = bytes(to_string(ctr)) : peel reference / deref wrappers, then as_bytes, then to_string
        t = name
        chain = []
        while isinstance(t, tuple):
            if t[0] in ("ref", "refval"):
                t = t[1]
            elif t[0] == "pl" and t[1][0] == "obj" and isinstance(t[1][1], tuple) and t[1][1][0] == "deref":
                t = t[1][1][1]
            elif t[0] == "call" and len(t[2]) == 1:
                chain.append(t[1].split("::")[-1])
                t = t[2][0]
            else:
                break
        okn = t == ctr and chain == ["as_bytes", "to_string"]
        if not okn and [c for c in chain if c != "must_use"] == ["as_bytes", "format"]:
            # `format!("{}", n)` / `format!("{n}")` spelling of n.to_string(): one Display placeholder, no literal text,
            # no format options (template from the AST), its argument the fetch_add payload (MIR)
            okn = _format_is_to_string(ctx, nb, t, ctr)
        chk.require(okn, "G1", nb.defp + ":name", nb.span,
                    "the v5 name is %s (chain %s over %s); expected the bytes of to_string(<fetch_add payload>) and nothing else" % (short(name)[:160], chain, short(t)[:60]),
                    describe_path(r))
        chk.sample({"rule": "G1", "returns": short(v)[:200], "atomic": at[0][1]})
    # ---------------- G2
    adt = db.adt("utils::uuid::UuidGenerator")
    fields = {f["name"]: f for f in adt["variants"][0]["fields"]}
    ctrs = [f for f in fields.values() if "Atomic" in f["ty"]]
    chk.require(len(ctrs) == 1 and ctrs[0]["vis"] != "pub", "G2", adt["def"] + ":counter-private", adt["span"], "counter fields: %s" % [(f["name"], f["vis"]) for f in ctrs])
    nw = db.method("UuidGenerator", "new")
    w = ctx.walker(max_depth=2)
    w.effect_of = make_effect_fn({"ATOMIC", "NONDET"})
    for r in w.walk(nw):
        if r.kind != "return":
            chk.fail("G2", nw.defp + ":exit", nw.span, "new has a %s path" % r.kind)
            continue
        v = r.value
        fd = dict(v[3]) if isinstance(v, tuple) and v[0] == "agg" else {}
        news = {e[3]: e[2][0] for e in r.trace if e[0] == "eff" and e[1] == "ATOMIC.new"}
        # AtomicU64::default() is AtomicU64::new(0)
        news.update({e[3]: Int(0) for e in r.trace if e[0] == "eff" and e[1] == "ATOMIC.default" and not e[2]})
        nsname = [n for n, f in fields.items() if "Uuid" in f["ty"]]
        okns = len(nsname) == 1 and fd.get(nsname[0]) == ("param", 1)
        chk.require(okns, "G2", nw.defp + ":namespace-unchanged", nw.span, "new() stores namespace %s" % short(fd.get(nsname[0]) if nsname else None), describe_path(r))
        okc = ctrs and news.get(fd.get(ctrs[0]["name"])) == Int(0)
        chk.require(okc, "G2", nw.defp + ":counter-zero", nw.span, "new() initialises the counter with %s" % short(news.get(fd.get(ctrs[0]["name"])) if ctrs else None))
    cg = ctx.cg
    for d, effs in cg.direct.items():
        if "utils::uuid" not in d:
            continue
        body = db.bodies[d]
        for c, m, bb, callee, span in effs:
            if c == "ATOMIC" and m not in ("load", "new", "default"):
                owner = body
                while owner.kind == "Closure" and owner.parent in db.bodies:
                    owner = db.bodies[owner.parent]
                ok = owner.name == "next" and m == "fetch_add"
                if not ok and m == "fetch_add" and owner.vis != "pub":
                    # a private helper of `next`: every caller chain inside the crate starts at `next` (G1 walks `next`
                    # with the helper inlined, so the one-fetch_add-of-1 obligation still covers it)
                    seen, todo, ok = set(), [owner.defp], True
                    while todo and ok:
                        x = todo.pop()
                        if x in seen:
                            continue
                        seen.add(x)
                        callers = [c2 for c2, tg in cg.edges.items() if x in tg]
                        if not callers:
                            ok = False
                        for c2 in callers:
                            cb = db.bodies.get(c2)
                            if cb is None or "utils::uuid" not in c2:
                                ok = False
                            elif cb.name == "next" and cb.defp == nb.defp:
                                continue
                            elif cb.vis == "pub":
                                ok = False
                            else:
                                todo.append(c2)
                chk.require(ok, "G2", "%s:%s" % (d, m), span, "the generator's counter is modified by %s in %s" % (m, d))
    # ---------------- G3
    for b in (nb, nw):
        nd = [(c, m, d) for c, m, d, callee, span in cg.effects_closure(b.defp) if c == "NONDET"]
        chk.require(not nd, "G3", b.defp, b.span, "nondeterministic source reachable: %s" % nd)
    # ---------------- G4
    L = LevelAnalysis(ctx)
    b, res, _ = L.paths("match_order")
    n = 0
    for r in res:
        if r.kind not in ("return", "backedge"):
            continue
        mi, marker = main_loop_info(r, b.defp)
        if marker is None:
            continue
        loops = [i for i, e in enumerate(r.trace) if e[0] == "loop"]
        end = loops[1] if len(loops) > 1 else len(r.trace)
        seg = r.trace[mi + 1:end]
        txs = [e for e in seg if e[0] == "eff" and e[1] == "TX.new"]
        gens = [e for e in seg if e[0] == "eff" and e[1] == "GEN.next"]
        outside = [e for e in r.trace[:mi] if e[0] == "eff" and e[1] == "GEN.next"]
        for tx in txs:
            n += 1
            ok = len(gens) == len(txs) and any(tx[2][0] == g[3] for g in gens) and not outside
            chk.require(ok, "G4", b.defp, tx[5], "transaction id %s is not a fresh draw of this iteration (%d draws for %d transactions)" % (short(tx[2][0]), len(gens), len(txs)), describe_path(r))
            if gens:
                g = gens[0][2][0]
                chk.require(isinstance(g, tuple) and g[0] == "ref" and g[1][1] == ("obj", ("param", 4)), "G4", b.defp + ":generator", gens[0][5], "id drawn from %s" % short(g))
    chk.require(n >= 7, "G4", b.defp + ":coverage", b.span, "%d transaction sites analysed" % n)


def _format_is_to_string(ctx, nb, t, ctr):
    from ..tables import WriterEntry, base_type
    ents = [WriterEntry(f) for f in ctx.db.fmt if base_type(f["impl_self"] or "") == "UuidGenerator" and f["fns"][:1] == ["next"]
            and "format!" in f["macros"]]
    if len(ents) != 1:
        return False
    e = ents[0]
    phs = e.placeholders()
    if e.literal_text() != "" or len(phs) != 1 or phs[0][2] != "Display" or not phs[0][3]:
        return False
    if not (isinstance(t, tuple) and t[0] == "call" and t[1].endswith("Arguments::new") and len(t[2]) == 2):
        return False
    arr = t[2][1]
    arr = arr[1] if isinstance(arr, tuple) and arr[0] == "refval" else arr
    items = list(arr[1]) if isinstance(arr, tuple) and arr[0] == "array" else []
    if len(items) != 1:
        return False
    a = items[0]
    if not (isinstance(a, tuple) and a[0] == "call" and a[1].endswith("new_display") and len(a[2]) == 1):
        return False
    x = a[2][0]
    while isinstance(x, tuple) and x[0] in ("ref", "refval"):
        x = x[1]
    if isinstance(x, tuple) and x[0] == "pl":
        return False
    return x == ctr
