"""C02 - every match is fully accounted for, no over-fill."""
from ..level import LevelAnalysis, SELF, seq_view
from ..terms import affine, prove_zero, short, Int, is_int, get_field, subterms, TRUE, FALSE
from ..common import describe_path
from ..walk import Walker
from .. import lvlrules as LR
from .c01 import segments, check_mutator
from .c06 import main_loop_info, remaining_local

RULES = {
    "M1": "taker conservation in match_against: consumed + remaining = incoming on every path",
    "M2": "loop invariant of match_order: remaining starts as the requested quantity; per iteration remaining' = remaining - (quantity of the transaction emitted in that iteration, 0 if none); at every exit remaining_quantity = remaining and is_complete = (remaining == 0) are the values returned",
    "M3": "argument provenance at Transaction::new: id <- a UuidGenerator::next() drawn in the same iteration; taker <- the taker_order_id parameter; maker <- id() of the popped order; price <- self.price; quantity <- the amount remaining was lowered by; side <- the opposite of the maker's side",
    "M4": "a transaction is created iff the consumed quantity is provably > 0 on the path",
    "M5": "filled list: add_filled_order_id(x) occurs exactly on paths where a transaction was emitted and the maker is not put back (neither pushed nor parked), once, with x = id of the popped order",
    "M6": "MatchResult::add_transaction agrees with the reference: remaining' = remaining.saturating_sub(t.quantity), is_complete' = (remaining' == 0), the transaction is appended; executed_quantity sums .quantity over the same list",
    "M7": "lifetime bound, static part: every fill lowers display+hidden of the re-queued value by exactly the fill (C05 conservation) and the level ledger balances (C01 L1 on match_order)",
    "M8": "the order a match meets is the order as last amended: OrderQueue::push stores the very value it is given under its own id (one map insert of (order.id(), order), replacing any earlier entry) and one ticket; pop and remove hand out the entry of their own map removal; nobody else writes the two containers (the queue rules of C19/C08 read sequentially) - without this an amended or partially filled order would trade with a stale quantity",
    "M0": "coverage: iteration paths with and without a transaction exist; Transaction::new / add_transaction / add_filled_order_id are called only in match_order and its callees",
}


def run(ctx, chk):
    for k, v in RULES.items():
        chk.rule(k, v)
    chk.explanation = (
        "Loop-invariant and value-provenance rules over the MIR paths of PriceLevel::match_order (per iteration, "
        "match_against inlined) and of MatchResult::add_transaction / executed_quantity, plus reference agreement for "
        "add_transaction (E1+E5). The invariant 'sum of transaction quantities + remaining = requested' is checked as "
        "an affine identity on every iteration path; the arguments of Transaction::new are checked by provenance of "
        "their terms. Nothing is executed.")
    chk.assumptions = ["transaction ids are unique given C14 (one fetch_add per draw) and no SHA-1 collision", "wall-clock timestamp not analysed"]
    chk.not_decided = ["global uniqueness of ids beyond C14", "timestamps"]
    L = LevelAnalysis(ctx)
    R = L.R
    db = ctx.db
    # ---------------- M8 (queue stores what it is given; single-threaded reading: C02 is a sequential property)
    from ..queue import QueueAnalysis
    Q = QueueAnalysis(ctx)
    Q.rule_push(chk, "M8", None)
    Q.rule_pop(chk, "M8", "M8", "M8", seq=True)
    Q.rule_remove_find(chk, "M8", seq=True)
    Q.who_may(chk, "M8")
    # ---------------- M1
    ma = db.method("OrderType", "match_against")
    w = ctx.walker()
    inc = ("param", 2)
    nret = 0
    for r in w.walk(ma):
        if r.kind != "return":
            continue
        nret += 1
        t = r.value
        if not (isinstance(t, tuple) and t[0] == "tuple" and len(t[1]) == 4):
            chk.fail("M1", ma.defp + ":shape", ma.span, "match_against returns %s" % short(t)[:200], undecided=True)
            continue
        c, _, _, rem = t[1]
        ok, why = prove_zero(affine(c).add(affine(rem)).add(affine(inc), -1), r.facts)
        v = r.facts.variant.get(("val", ("obj", ("param", 1))))
        chk.require(ok, "M1", "%s:%s" % (ma.defp, v), ma.span, "consumed(%s) + remaining(%s) != incoming (%s)" % (short(c), short(rem), why), describe_path(r))
    chk.require(nret >= 14, "M0", ma.defp + ":paths", ma.span, "only %d return paths" % nret)

    # ---------------- M0: nobody but match_order (and what it calls) emits transactions or fills the result lists
    b0 = L.paths("match_order")[0]
    reach = set(ctx.cg.reach([b0.defp]))
    n_sites = 0
    for d, effs in ctx.cg.direct.items():
        for c, m, bb, callee, span in effs:
            if (c, m) in (("TX", "new"), ("RES", "add_transaction"), ("RES", "add_filled_order_id")):
                n_sites += 1
                chk.require(d in reach, "M0", "%s:%s.%s:outside-match_order" % (d, c, m), span,
                            "%s.%s is called in %s, which match_order does not reach: executions produced there are not covered by M2-M5" % (c, m, d))
    chk.require(n_sites >= 3, "M0", "emission-sites", b0.span, "only %d Transaction::new / add_transaction / add_filled_order_id sites found" % n_sites)

    # ---------------- M2..M5 on match_order
    b, res, stats = L.paths("match_order")
    fn = b.defp
    n_tx = n_notx = 0
    price_term = ("field", ("val", SELF), None, L.price_field)
    for r in res:
        if not LR.usable(chk, "M0", fn, b.span, r):
            continue
        mi, marker = main_loop_info(r, fn)
        if marker is None:
            continue
        loops = [i for i, e in enumerate(r.trace) if e[0] == "loop"]
        hv = remaining_local(r, marker)
        # M2 base: remaining initialised from the quantity parameter
        pre = marker[2]
        if hv is not None:
            chk.require(pre.get(hv[2]) == ("param", 2), "M2", fn + ":init", b.span,
                        "the loop variable tested by `while remaining > 0` starts as %s, not as the requested quantity" % short(pre.get(hv[2])))
        # segment of the main loop on this path
        end = loops[1] if len(loops) > 1 else len(r.trace)
        seg = r.trace[mi + 1:end]
        ids = set(id(e) for e in seg)
        qev = [x for x in L.queue_events(r.trace, r.facts) if id(x[2]) in ids]
        taken = [o for k, o, e in qev if k == "take"]
        txs = [e for e in seg if e[0] == "eff" and e[1] == "TX.new"]
        gens = [e for e in seg if e[0] == "eff" and e[1] == "GEN.next"]
        fills = [e for e in seg if e[0] == "eff" and e[1] == "RES.add_filled_order_id"]
        addtx = [e for e in seg if e[0] == "eff" and e[1] == "RES.add_transaction"]
        is_iter = (r.kind == "backedge" and len(loops) == 1) or (r.kind == "return" and taken) or (r.kind == "backedge" and len(loops) > 1 and taken)
        if taken and hv is not None:
            o = taken[0]
            v = R.variant_of(o, r.facts)
            # value of `remaining` at the end of the main-loop segment: read from the state is only valid when the path
            # ends inside the segment; otherwise use the value written to the result
            if r.kind == "backedge" and len(loops) == 1:
                newv = r.state.frames[0].locals.get(hv[2])
            else:
                newv = get_field(r.value, "remaining_quantity") if r.kind == "return" else None
            chk.require(len(txs) <= 1 and len(addtx) == len(txs), "M2", fn + ":one-tx-per-visit", b.span,
                        "%d transactions / %d add_transaction calls in one maker visit" % (len(txs), len(addtx)), describe_path(r))
            txq = txs[0][2][4] if txs else Int(0)
            if newv is not None:
                ok, why = prove_zero(affine(hv).add(affine(newv), -1).add(affine(txq), -1), r.facts)
                chk.require(ok, "M2", "%s:%s" % (fn, v), b.span,
                            "remaining goes from %s to %s but the transaction quantity is %s: executed + remaining != requested (%s)" % (
                                short(hv), short(newv), short(txq), why), describe_path(r))
            if txs:
                n_tx += 1
                a = txs[0][2]
                key = "%s:%s" % (fn, v)
                # M3
                chk.require(len(gens) == 1 and a[0] == gens[0][3], "M3", key + ":id", txs[0][5],
                            "transaction id %s is not a UuidGenerator::next() drawn in this iteration (%d draws)" % (short(a[0]), len(gens)), describe_path(r))
                if gens:
                    g = gens[0][2][0]
                    okg = isinstance(g, tuple) and g[0] == "ref" and g[1][1] == ("obj", ("param", 4))
                    chk.require(okg, "M3", key + ":generator", gens[0][5], "the id is drawn from %s, not from the generator passed in" % short(g))
                chk.require(a[1] == ("param", 3), "M3", key + ":taker", txs[0][5], "taker id is %s, not the taker_order_id parameter" % short(a[1]), describe_path(r))
                want_maker = ("field", o, v, R.id_field.get(v))
                chk.require(a[2] == want_maker, "M3", key + ":maker", txs[0][5], "maker id is %s, not the popped order's id" % short(a[2]), describe_path(r))
                chk.require(a[3] == price_term, "M3", key + ":price", txs[0][5], "transaction price is %s, not the level's price" % short(a[3]), describe_path(r))
                side_t = ("field", o, v, R.side_field.get(v))
                ms = r.facts.variant.get(side_t)
                ts = a[5][2] if isinstance(a[5], tuple) and a[5][0] == "agg" else r.facts.variant.get(a[5])
                chk.require(ms is not None and ts is not None and {ms, ts} == {"Buy", "Sell"}, "M3", key + ":side", txs[0][5],
                            "taker side %s for a maker on side %s" % (ts or short(a[5]), ms), describe_path(r))
                chk.require(addtx and addtx[0][2][1] == txs[0][3], "M3", key + ":recorded", txs[0][5],
                            "the transaction created is not the one added to the result", describe_path(r))
                # M4
                chk.require(r.facts.decide_atom(("lt", Int(0), txq)) is True, "M4", key, txs[0][5],
                            "a transaction of quantity %s is created on a path where it is not known to be positive" % short(txq), describe_path(r))
                if len(chk.samples) < 8:
                    chk.sample({"rule": "M3", "variant": v, "tx": [short(x)[:80] for x in a], "facts": r.facts.describe(6)})
            else:
                n_notx += 1
                # M4 converse: nothing consumed
                pass
            # M5
            put_back = [x for x in qev if x[0] in ("push", "park")]
            should = bool(txs) and not put_back
            key = "%s:%s" % (fn, v)
            chk.require((len(fills) == 1) == should and len(fills) <= 1, "M5", key, b.span,
                        "add_filled_order_id is called %d time(s) on a path where the maker %s and %s" % (
                            len(fills), "traded" if txs else "did not trade", "left the book" if not put_back else "stays in the book"),
                        describe_path(r))
            if fills:
                chk.require(fills[0][2][1] == ("field", o, v, R.id_field.get(v)), "M5", key + ":id", fills[0][5],
                            "filled id %s is not the popped order's id" % short(fills[0][2][1]), describe_path(r))
        elif not taken:
            chk.require(not txs and not fills, "M4", fn + ":no-maker", b.span, "transaction/fill recorded without a maker", describe_path(r))
        # M2 exits
        if r.kind == "return":
            rq = get_field(r.value, "remaining_quantity")
            ic = get_field(r.value, "is_complete")
            tid = get_field(r.value, "order_id")
            want = Walker.binop("Eq", rq, Int(0))
            ok = ic == want
            if not ok:
                d = r.facts.decide(ic) if not is_int(ic) else (ic[1] != 0)
                z = True if (r.facts.known_zero(rq) or prove_zero(affine(rq), r.facts)[0]) else (False if r.facts.decide_atom(("lt", Int(0), rq)) is True else None)
                ok = d is not None and z is not None and d == z
            chk.require(ok, "M2", fn + ":is_complete", b.span, "is_complete is %s while remaining_quantity is %s" % (short(ic), short(rq)), describe_path(r))
            # remaining_quantity must be the loop variable (its exit value), not a stale field
            okr = not any(isinstance(s, tuple) and s[0] == "mut" for s in subterms(rq))
            chk.require(okr and rq is not None, "M2", fn + ":remaining_quantity", b.span,
                        "remaining_quantity returned is %s, not the loop's remaining value" % short(rq)[:200], describe_path(r))
    chk.require(n_tx >= 7 and n_notx >= 1, "M0", fn + ":iteration-kinds", b.span, "%d maker visits with a transaction, %d without" % (n_tx, n_notx))

    # ---------------- M6
    at = db.method("MatchResult", "add_transaction")
    w = ctx.walker(max_depth=3)
    refb = ctx.ref.one("ref_add_transaction")
    selfo = ("obj", ("param", 1))
    old_rem = ("field", ("val", selfo), None, "remaining_quantity")
    q = ("field", ("param", 2), None, "quantity")
    wr = ctx.walker(db=ctx.ref)
    rr = [x for x in wr.walk(refb, args=[old_rem, q]) if x.kind == "return"]
    for r in w.walk(at):
        if r.kind != "return":
            continue
        newrem = r.state.heap.get((selfo, (("f", None, "remaining_quantity"),)))
        newic = r.state.heap.get((selfo, (("f", None, "is_complete"),)))
        for x in rr:
            wr_, wi_ = x.value[1]
            def same_int(a, b):
                return a == b or (a is not None and b is not None and prove_zero(affine(a).add(affine(b), -1), r.facts)[0])

            def same_bool(a, b):
                if a == b:
                    return True
                za = a[2] if isinstance(a, tuple) and len(a) == 4 and a[0] == "bin" and a[1] == "Eq" and a[3] == Int(0) else None
                zb = b[2] if isinstance(b, tuple) and len(b) == 4 and b[0] == "bin" and b[1] == "Eq" and b[3] == Int(0) else None
                if za is not None and zb is not None:
                    return same_int(za, zb)
                # one side already decided on this path (`0 == 0`)
                for x, z in ((a, zb), (b, za)):
                    if is_int(x) and z is not None:
                        zero = prove_zero(affine(z), r.facts)[0]
                        return (x[1] == 1) == zero if zero else False
                return False
            chk.require(same_int(newrem, wr_), "M6", at.defp + ":remaining", at.span, "remaining_quantity becomes %s, reference %s" % (short(newrem), short(wr_)), describe_path(r))
            chk.require(same_bool(newic, wi_), "M6", at.defp + ":is_complete", at.span, "is_complete becomes %s, reference %s" % (short(newic), short(wi_)), describe_path(r))
        pushes = [e for e in r.trace if e[0] == "call" and e[1].endswith("Vec::push")]
        okp = len(pushes) == 1 and pushes[0][2][1] == ("param", 2) and "transactions" in short(pushes[0][2][0])
        chk.require(okp, "M6", at.defp + ":appends", at.span, "the transaction is not appended to self.transactions exactly once (%s)" % [short(e[2][1])[:60] for e in pushes])
    eq_ = db.method("MatchResult", "executed_quantity")
    w = ctx.walker(max_depth=3)
    for r in w.walk(eq_):
        if r.kind != "return":
            continue
        s = short(r.value)
        oks = isinstance(r.value, tuple) and r.value[0] == "call" and r.value[1].endswith("sum") and "transactions" in s
        chk.require(oks, "M6", eq_.defp + ":sum-over-transactions", eq_.span, "executed_quantity returns %s" % s[:200])
        clos = [t for t in subterms(r.value) if isinstance(t, tuple) and t[0] == "agg" and isinstance(t[1], str) and t[1].startswith("closure:")]
        okc = False
        for c in clos:
            cb = db.bodies.get(c[1][len("closure:"):])
            if cb is None:
                continue
            for rc in ctx.walker(max_depth=1).walk(cb):
                if rc.kind == "return" and isinstance(rc.value, tuple) and rc.value[0] == "field" and rc.value[3] == "quantity":
                    okc = True
        chk.require(okc, "M6", eq_.defp + ":maps-quantity", eq_.span, "executed_quantity does not sum the `quantity` field")

    # ---------------- M7 (static part): ledger balance on match_order
    for r0 in res:
        if r0.kind in ("unreachable", "panic") or r0.flags:
            continue
        r = seq_view(L, r0)
        if r is None:
            continue
        for segname, lo, hi in segments(r):
            d, qd, cev, qev, other = L.deltas(r.trace, r.facts, lo, hi)
            for role in ("visible", "hidden"):
                ok, why = prove_zero(d[role].add(qd[role], -1), r.facts)
                chk.require(ok, "M7", "%s:%s" % (fn, role), b.span, "a fill is not reflected in the re-queued order: %s delta %r vs queue delta %r" % (role, d[role], qd[role]), describe_path(r))
    # other discovered mutators (a new top-up / requeue / restore style API): an order taken out and put back under the
    # same id must not come back with more display+hidden than it had (quantity only grows through update_order's amend)
    from ..terms import prove_nonneg
    for name in L.mutators():
        if "::" not in name:
            continue
        bx, resx, _ = L.paths(name)
        for r in resx:
            if r.kind not in ("return", "backedge") or r.flags:
                continue
            for segname, lo, hi in segments(r):
                ids = set(id(e) for e in r.trace[lo:hi])
                qev = [x for x in L.queue_events(r.trace, r.facts) if id(x[2]) in ids]
                taken = [o for k, o, e in qev if k == "take"]
                for k, o, e in qev:
                    if k not in ("push", "park"):
                        continue
                    for t in taken:
                        if not LR.same_id(L.R, t, o, r.facts):
                            continue
                        tot_t = affine(L.R.role(t, r.facts, "display")).add(affine(L.R.role(t, r.facts, "reserve")))
                        tot_o = affine(L.R.role(o, r.facts, "display")).add(affine(L.R.role(o, r.facts, "reserve")))
                        ok, why = prove_nonneg(tot_t.add(tot_o, -1), r.facts)
                        chk.require(ok, "M7", "%s:%s:lifetime" % (bx.defp, LR.first_label(r)), e[5],
                                    "%s puts an order back with display+hidden %r where it had %r: not provably <= (an order must never be able to trade more than it brought; %s)" % (
                                        bx.name, tot_o, tot_t, why), describe_path(r))
