"""C05 - per-order matching rules: reference agreement (E5) for OrderType::match_against."""
from ..terms import (unsign, Int, TRUE, FALSE, agg, affine, prove_zero, short, is_int)
from ..common import describe_path, is_adt
from ..db import AnchorError

SUBJ = ("val", ("obj", ("param", 1)))
INCOMING = ("param", 2)

RULES = {
    "A1": "for every variant and every pair of non-contradictory paths, match_against's four outputs equal the reference function's (written from the property text)",
    "A2": "every identity field of a returned order is the like-named field of self, and the variant is unchanged",
    "A3": "DEFAULT_RESERVE_REPLENISH_AMOUNT evaluates to 80",
    "A4": "every checked subtraction/addition in match_against is guarded (a-b under b<=a or b=min(..,a); a+b with a<=display, b<=hidden)",
    "A5": "consumed = min(incoming, display); a surviving order conserves display+hidden-consumed; remaining = incoming-consumed",
    "A6": "match_against is the only implementation of the matching rules: orders are immutable values - no function of the crate assigns to the displayed / hidden quantity field of an existing OrderType in place (a `&mut self` re-implementation would bypass A1-A5)",
    "A0": "coverage: all OrderType variants x {display<=incoming, display>incoming} reach a return on both sides",
}


def kind_of(variant):
    if "Iceberg" in variant:
        return "Iceberg"
    if "Reserve" in variant:
        return "Reserve"
    return "Plain"


def merge_facts(base, other):
    """base.copy() + other's facts, or None when syntactically contradictory"""
    f = base.copy()
    for atom, pol in other.order:
        if atom[0] == "variant":
            if not f.assume_variant(atom[1], atom[2]):
                return None
            continue
        d = f.decide_atom(atom)
        if d is not None:
            if d != pol:
                return None
            continue
        f.atoms[atom] = pol
        f.order.append((atom, pol))
    # consistency of the union: a fact of one side may contradict a fact of the other only after resolution
    # (`nv < max(thr, 1)` with `thr == 0` and `arg < visible`)
    for atom, pol in list(f.order):
        if atom[0] not in ("lt", "eq"):
            continue
        del f.atoms[atom]
        d = f.decide_atom(atom)
        f.atoms[atom] = pol
        if d is not None and d != pol:
            return None
    return f


def eq_int(a, b, facts):
    return prove_zero(affine(a).add(affine(b), -1), facts)


def ref_args(R, V):
    kind = kind_of(V)
    disp = ("field", SUBJ, V, R.display[V])
    hid = ("field", SUBJ, V, R.reserve[V]) if R.reserve[V] else Int(0)
    if kind == "Reserve":
        fs = R.fields[V]
        for need in ("replenish_threshold", "replenish_amount", "auto_replenish"):
            if need not in fs:
                raise AnchorError("ReserveOrder has no field %s" % need)
        thr = ("field", SUBJ, V, "replenish_threshold")
        amt = ("field", SUBJ, V, "replenish_amount")
        auto = ("field", SUBJ, V, "auto_replenish")
    else:
        thr, amt, auto = Int(0), agg("std::option::Option", "None", []), FALSE
    return [agg("Kind", kind, []), disp, hid, thr, amt, auto, INCOMING], disp, hid


def impl_outputs(r):
    """(consumed, keep_variant, order_term, hidden_reduced, remaining) of an impl return path"""
    t = r.value
    if not (isinstance(t, tuple) and t[0] == "tuple" and len(t[1]) == 4):
        return None
    c, upd, hr, rem = t[1]
    if not (isinstance(upd, tuple) and upd[0] == "agg" and upd[2] in ("Some", "None")):
        return None
    order = dict(upd[3]).get("0") if upd[2] == "Some" else None
    return c, upd[2], order, hr, rem


def run(ctx, chk):
    for k, v in RULES.items():
        chk.rule(k, v)
    chk.explanation = (
        "Engine E5 (reference agreement): OrderType::match_against is walked path-sensitively over its MIR "
        "(all CFG paths, variants split exhaustively); for each variant the reference function ref_match "
        "(/verif/reference, transcribed from the property text, compiled by the same exporter, never run) is "
        "walked with the variant's field terms as arguments; every pair of syntactically compatible paths must "
        "produce equal outputs as affine terms under the union of the path facts (min/max case-split, Gaussian "
        "elimination, no solver). Plus direct rules A2-A5 on the implementation's paths. This decides the "
        "function for all inputs (it is loop-free); it does not run it.")
    chk.trusted = ["E1 model of Ord::min, Option::unwrap_or, Clone::clone, checked arithmetic (overflow = panic)",
                   "rustc MIR construction"]
    chk.assumptions = ["displayed+hidden <= u64::MAX (stated by the property)"]
    R = ctx.roles
    db = ctx.db
    b = db.method("OrderType", "match_against")
    site = b.span
    w = ctx.walker()
    res = w.walk(b)
    chk.stats["impl_paths"] = len(res)
    chk.stats["walker"] = dict(w.stats, opaque=dict(sorted(w.stats["opaque"].items())))
    refb = ctx.ref.one("ref_match")

    # A3
    c = [v for d, v in db.consts.items() if d.endswith("DEFAULT_RESERVE_REPLENISH_AMOUNT")]
    chk.require(len(c) == 1 and c[0]["val"] == 80, "A3", "orders::order_type::DEFAULT_RESERVE_REPLENISH_AMOUNT",
                site, "constant is %s" % (c[0]["val"] if c else "missing"))

    fn_key = b.defp
    for r in res:
        if r.kind not in ("return",):
            chk.fail("A0", "%s:exit-%s" % (fn_key, r.kind), site, "a path of match_against ends in %s (%s)" % (r.kind, r.detail),
                     describe_path(r))
    rets = [r for r in res if r.kind == "return"]
    for V in R.variants:
        paths = [r for r in rets if r.facts.variant.get(SUBJ) == V]
        args, disp, hid = ref_args(R, V)
        wr = ctx.walker(db=ctx.ref)
        rres = [q for q in wr.walk(refb, args=args) if q.kind == "return"]
        chk.stats.setdefault("ref_paths", {})[V] = len(rres)
        # A0 coverage on both sides
        for side_name, plist in (("impl", paths), ("ref", rres)):
            le = any(p.facts.decide_atom(("lt", INCOMING, disp)) is False for p in plist)
            gt = any(p.facts.decide_atom(("lt", INCOMING, disp)) is True for p in plist)
            chk.require(le and gt, "A0", "%s:%s:%s" % (fn_key, V, side_name), site,
                        "regions reached: display<=incoming %s, display>incoming %s (%d paths)" % (le, gt, len(plist)))
        ref_used = [0] * len(rres)
        for p in paths:
            out = impl_outputs(p)
            region = "full" if p.facts.decide_atom(("lt", INCOMING, disp)) is False else "partial"
            key = "%s:%s:%s" % (fn_key, V, region)
            if out is None:
                chk.fail("A1", key, site, "cannot interpret the returned value %s" % short(p.value), describe_path(p), undecided=True)
                continue
            c_, keepv, order, hr, rem = out
            # ---- A2 identity + variant
            if keepv == "Some":
                ov, fd = R.view(order, p.facts)
                if order == SUBJ:
                    # self handed back unchanged (a clone): identity holds trivially
                    chk.ok("A2", "%s:%s:self" % (fn_key, V), site)
                elif fd is None:
                    chk.fail("A2", "%s:%s" % (fn_key, V), site, "returned order is not a constructed value: %s" % short(order),
                             describe_path(p), undecided=True)
                    continue
                else:
                    if not chk.require(ov == V, "A2", "%s:%s:variant" % (fn_key, V), site,
                                       "order of variant %s comes back as %s" % (V, ov), describe_path(p)):
                        continue
                    for f in R.identity_fields(V):
                        want = ("field", SUBJ, V, f)
                        chk.require(unsign(fd.get(f)) == want, "A2", "%s:%s:%s" % (fn_key, V, f), site,
                                    "field %s of the returned order is %s, expected self.%s" % (f, short(fd.get(f)), f), describe_path(p))
                d2, h2 = R.role(order, p.facts, "display"), R.role(order, p.facts, "reserve")
            # ---- A5 direct consequences
            if region == "full":
                ok, why = eq_int(c_, disp, p.facts)
            else:
                ok, why = eq_int(c_, INCOMING, p.facts)
            chk.require(ok, "A5", key + ":consumed", site, "consumed=%s is not min(incoming, display) on this path (%s)" % (short(c_), why), describe_path(p))
            ok, why = prove_zero(affine(rem).add(affine(INCOMING), -1).add(affine(c_)), p.facts)
            chk.require(ok, "A5", key + ":remaining", site, "remaining=%s is not incoming-consumed (%s)" % (short(rem), why), describe_path(p))
            if keepv == "Some":
                form = affine(d2).add(affine(h2)).add(affine(disp), -1).add(affine(hid), -1).add(affine(c_))
                ok, why = prove_zero(form, p.facts)
                chk.require(ok, "A5", key + ":conserve", site,
                            "display'+hidden' = %s + %s differs from display+hidden-consumed (%s)" % (short(d2), short(h2), why), describe_path(p))
                ok, why = prove_zero(affine(h2).add(affine(hid), -1).add(affine(hr)), p.facts)
                chk.require(ok, "A5", key + ":hidden_reduced", site,
                            "hidden' = %s is not hidden - hidden_reduced(%s) (%s)" % (short(h2), short(hr), why), describe_path(p))
            # ---- A1 against every compatible reference path
            ncompat = 0
            for qi, q in enumerate(rres):
                m = merge_facts(p.facts, q.facts)
                if m is None:
                    continue
                ncompat += 1
                ref_used[qi] += 1
                qo = dict(q.value[3])
                diffs = []
                for nm, mine, theirs in (("consumed", c_, qo["consumed"]), ("hidden_reduced", hr, qo["hidden_reduced"]),
                                         ("remaining", rem, qo["remaining"])):
                    ok, why = eq_int(mine, theirs, m)
                    if not ok:
                        diffs.append("%s: impl %s vs reference %s (%s)" % (nm, short(mine), short(theirs), why))
                qk = qo["keep"]
                if qk[2] != keepv:
                    diffs.append("order kept: impl %s vs reference %s" % (keepv, qk[2]))
                elif keepv == "Some":
                    pair = dict(qk[3])["0"]
                    rd, rh = pair[1]
                    ok, why = eq_int(d2, rd, m)
                    if not ok:
                        diffs.append("displayed after: impl %s vs reference %s (%s)" % (short(d2), short(rd), why))
                    ok, why = eq_int(h2, rh, m)
                    if not ok:
                        diffs.append("hidden after: impl %s vs reference %s (%s)" % (short(h2), short(rh), why))
                if diffs:
                    chk.fail("A1", key, site, "; ".join(diffs) + " | reference path: " + "; ".join(q.facts.describe(12)), describe_path(p))
                else:
                    chk.ok("A1", key, site)
                    chk.sample({"rule": "A1", "variant": V, "region": region, "impl_facts": p.facts.describe(8),
                                "ref_facts": q.facts.describe(8), "outputs": short(p.value)[:300], "verdict": "equal"})
            if ncompat == 0:
                chk.fail("A1", key, site, "no reference path is compatible with this implementation path", describe_path(p), undecided=True)
        for qi, n in enumerate(ref_used):
            if n == 0:
                chk.fail("A0", "%s:%s:ref-path-unmatched" % (fn_key, V), site,
                         "a reference path has no compatible implementation path: " + "; ".join(rres[qi].facts.describe(12)), undecided=True)

    # ---- A6 no in-place mutation of order quantities anywhere in the crate
    ot = db.adt("orders::order_type::OrderType")
    qfields = {f for f in list(R.display.values()) + list(R.reserve.values()) if f}
    n_scanned = 0
    def qfield_of(place):
        return [x for x in place["p"] if x.get("k") == "field" and x.get("adt") == ot["def"] and x.get("name") in qfields]
    for d, bd in sorted(db.bodies.items()):
        # where a reference-typed local points: local -> local it was borrowed / copied from
        src = {}
        for blk in bd.blocks:
            for st in blk["stmts"]:
                if st["k"] == "assign" and not st["place"]["p"]:
                    rv = st["rv"]
                    if rv["k"] in ("ref", "rawptr"):
                        src.setdefault(st["place"]["l"], rv["place"]["l"])
                    elif rv["k"] in ("use", "cast") and isinstance(rv.get("op"), dict) and rv["op"].get("k") in ("copy", "move"):
                        src.setdefault(st["place"]["l"], rv["op"]["place"]["l"])

        def root_is_param(l, seen=()):
            """does the place rooted at local l reach back to a parameter (an order that exists outside this call)?"""
            if 1 <= l <= bd.argc:
                return True
            if l in seen or l not in src:
                return False
            return root_is_param(src[l], seen + (l,))
        # locals holding `&mut order.<quantity field>` (match ergonomics: `Self::Iceberg { visible_quantity, .. }` on &mut self)
        mutrefs = {}
        for blk in bd.blocks:
            for st in blk["stmts"]:
                if st["k"] == "assign" and not st["place"]["p"] and st["rv"]["k"] == "ref" and st["rv"].get("mut"):
                    h = qfield_of(st["rv"]["place"])
                    if h:
                        mutrefs[st["place"]["l"]] = h
        for blk in bd.blocks:
            for st in blk["stmts"]:
                if st["k"] != "assign":
                    continue
                n_scanned += 1
                pj = st["place"]["p"]
                hit = qfield_of(st["place"])
                if not hit and pj and pj[0].get("k") == "deref" and len(pj) == 1 and st["place"]["l"] in mutrefs:
                    hit = mutrefs[st["place"]["l"]]
                # a local clone being modified (`let mut out = self.clone(); out.quantity = q`, also through `match &mut out`)
                # is a new value under construction, not an existing order
                if hit and any(x.get("k") == "deref" for x in pj) and root_is_param(st["place"]["l"]):
                    owner = bd
                    while owner.kind == "Closure" and owner.parent in db.bodies:
                        owner = db.bodies[owner.parent]
                    chk.fail("A6", "%s:%s" % (owner.defp, hit[0]["name"]), st.get("span", ""),
                             "%s assigns to the %s field of an existing order in place: a matching/amend rule implemented outside match_against" % (owner.defp, hit[0]["name"]))
    chk.require(n_scanned > 1000, "A6", "scan", "", "only %d assignments scanned" % n_scanned)

    # ---- A4 arithmetic safety (assert events carry the number of facts known when they are reached)
    rule_arith_guards(ctx, chk, "A4", rets)


def rule_arith_guards(ctx, chk, rid, rets=None):
    """every checked subtraction / addition in match_against is guarded on the path that reaches it (shared with C06:
    an unguarded one is a panic inside match_order)"""
    R = ctx.roles
    b = ctx.db.method("OrderType", "match_against")
    fn_key = b.defp
    if rets is None:
        rets = [r for r in ctx.walker().walk(b) if r.kind == "return"]
    n = 0
    for p in rets:
        V = p.facts.variant.get(SUBJ)
        if V is None:
            continue
        disp = ("field", SUBJ, V, R.display[V])
        hid = ("field", SUBJ, V, R.reserve[V]) if R.reserve[V] else None
        for e in p.events("assert"):
            _, msg, ops, s, nf, span, cond, expected = e
            key = "%s:%s:%s" % (fn_key, V, msg)
            n += 1
            ok, why = discharge_arith(msg, ops, p.facts, nf, disp, hid)
            chk.require(ok, rid, key, span, "unguarded %s on %s: %s" % (msg, ", ".join(short(o) for o in ops), why), describe_path(p))
    return n


def upper_bounds(t):
    """terms that bound t from above (unsigned)"""
    out = {t}
    if isinstance(t, tuple):
        if t[0] == "bin" and t[1] == "Sub":
            out |= upper_bounds(t[2])
        if t[0] == "min":
            out |= upper_bounds(t[1]) | upper_bounds(t[2])
        if t[0] == "satsub":
            out |= upper_bounds(t[1])
    return out


def discharge_arith(msg, ops, facts, nfacts, disp, hid):
    from ..terms import Facts
    prefix = Facts()
    for atom, pol in facts.order[:nfacts]:
        if atom[0] == "variant":
            prefix.variant[atom[1]] = atom[2]
        else:
            prefix.atoms[atom] = pol
        prefix.order.append((atom, pol))
    if msg == "overflow:Sub" and len(ops) == 2:
        a, b = ops
        if a in upper_bounds(b) and a != b or a == b:
            return True, "b <= a by construction"
        if prefix.decide_atom(("lt", a, b)) is False:
            return True, "dominating fact a >= b"
        if is_int(b) and b[1] == 0:
            return True, "minus zero"
        return False, "no dominating fact %s >= %s" % (short(a), short(b))
    if msg == "overflow:Add" and len(ops) == 2:
        a, b = ops
        ua, ub = upper_bounds(a), upper_bounds(b)
        if hid is not None and ((disp in ua and hid in ub) or (hid in ua and disp in ub)):
            return True, "a <= display and b <= hidden (display+hidden fits by precondition)"
        if is_int(a) and a[1] == 0 or is_int(b) and b[1] == 0:
            return True, "plus zero"
        return False, "summands are not bounded by display and hidden"
    return False, "unknown assert kind"
