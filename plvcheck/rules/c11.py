"""C11 - a restored level trades in the same order: one necessary condition."""
from ..queue import QueueAnalysis, eff_in
from ..terms import short
from ..common import describe_path

RULES = {
    "O1": "the sequence stored in a snapshot must encode queue position: flagged iff the listing function reached from PriceLevel::snapshot reads no ticket-queue state and orders its result solely by map iteration and the user-supplied timestamp",
    "O2": "restore pushes the listed orders in listed order (forward iteration, one push per element)",
    "O3": "the listing is not re-ordered by anything else (exactly one sort, keyed on timestamp() alone, ascending)",
    "O5": "restore rebuilds the queue from exactly the listed order sequence: refresh_aggregates does not alter the list, and the queue constructor receives that very list (not a filtered / re-ordered copy)",
    "O6": "the JSON restore route keeps every order as it was: no asymmetric serde attribute on the snapshot's type closure; an order id comes back as the same id (OrderId writes to_string(), reads an owned string through from_str, and that pair round-trips) - otherwise later cancels/amends addressed by id diverge",
    "O4": "both levels queue the same way: the live queue's primitives keep their FIFO shape (push = insert + ticket; pop = entry of the ticket taken; remove only deletes the map entry) and nobody else touches the containers, so the original and the restored level order identical pushes identically",
}


from ..level import LevelAnalysis as LevelAnalysis2


def run(ctx, chk):
    for k, v in RULES.items():
        chk.rule(k, v)
    chk.explanation = (
        "Behavioural equivalence of two levels over all continuations is not statically decidable here; the check "
        "decides one necessary structural condition (O1: does the snapshot's order list carry queue position at all?) "
        "plus the order-preservation of the restore path (O2) and that nothing but the timestamp sort re-orders the "
        "listing (O3). O1 fails on the pinned tree by construction and is a known finding.")
    chk.not_decided = ["equivalence of continuations (even with O1 repaired only the necessary condition would be established)"]
    Q = QueueAnalysis(ctx)
    # snapshot -> iter_orders -> to_vec reachability
    snap = ctx.db.method("PriceLevel", "snapshot")
    tv = ctx.db.method("OrderQueue", "to_vec")
    reach = ctx.cg.reach([snap.defp])
    chk.require(tv.defp in reach, "O1", "snapshot-uses-to_vec", snap.span, "PriceLevel::snapshot does not list through OrderQueue::to_vec")
    b, res, _ = Q.paths("to_vec")
    uses_ticket = any(Q.effs(r, "TICKET") for r in res)
    only_map = all(eff_in(r.value, "MAP.iter") is not None for r in res if r.kind == "return")
    if (not uses_ticket) and only_map:
        chk.fail("O1", tv.defp, tv.span,
                 "the snapshot lists orders by map iteration sorted on the user-supplied timestamp; queue position (the ticket FIFO) is not "
                 "consulted, so a restored level trades in timestamp order, not in the original queue order (orders added with timestamps 5 then 1 swap)")
    else:
        chk.ok("O1", tv.defp, tv.span)
    Q.rule_push(chk, "O4", None)
    Q.rule_pop(chk, "O4", "O4", "O4", seq=True)
    Q.rule_remove_find(chk, "O4", seq=True)
    Q.who_may(chk, "O4")
    from .. import lvlrules as LR2
    LR2.rule_no_remove_then_push_in_extras(ctx, chk, LevelAnalysis2(ctx), "O4")
    Q.rule_constructors(chk, "O2")
    from ..level import LevelAnalysis
    from .c01 import check_constructors
    check_constructors(ctx, chk, LevelAnalysis(ctx), rid="O5", rid0="O5")
    Q.rule_to_vec(chk, "O3")
    from .c17 import rule_serde_attrs, rule_order_id_json
    rule_serde_attrs(ctx, chk, "O6", "O6")
    rule_order_id_json(ctx, chk, "O6")
    # restore path: from_snapshot builds the queue from snapshot.orders via From<Vec>
    for nm, tr in (("from_snapshot", None), ("from", "From<&price_level::snapshot::PriceLevelSnapshot>")):
        fb = ctx.db.method("PriceLevel", nm, trait=tr)
        r2 = ctx.cg.reach([fb.defp])
        chk.require(ctx.db.method("OrderQueue", "from", trait="From").defp in r2 or ctx.db.method("OrderQueue", "from_vec").defp in r2,
                    "O2", fb.defp + ":uses-ordered-constructor", fb.span, "restore does not build the queue through From<Vec>/from_vec")
