"""C03 - quantity conserved under concurrent add/match/cancel/amend (structure that makes it so)."""
from ..level import LevelAnalysis
from ..queue import QueueAnalysis
from .. import lvlrules as LR

RULES = {
    "K1": "every counter add/sub operand and every order put back into the queue is a function of owned terms (payload of pop/remove, by-value parameter) and scalars only - never of a find()/load() result",
    "K2": "aggregates are only touched by atomic fetch_add/fetch_sub/load inside the mutators (no load+store split, no operand recomputed from a load); the mutator set is discovered from the MIR and no function outside it (or its callees) writes a level's counters or queue",
    "K3": "linear use of owned orders: without any find/remove aliasing, on every path the counter deltas equal the contribution of the orders this thread took minus those it put back (so an early exit between take and re-insert, or a dropped order, is reported)",
    "K4": "single hand-out point: OrderQueue::pop and ::remove return the payload of their own DashMap::remove; find/to_vec only read; nothing else touches the map or the ticket queue",
}


def run(ctx, chk):
    _run(ctx, chk)
    if ctx.tier == "thorough":
        from ..witness import run_witnesses
        chk.rule("W", "(thorough) compile_fail witnesses: naming the private state of the level from outside the crate is rejected by rustc (E0616), while the twin using only public accessors type-checks")
        run_witnesses(ctx, chk, "W", ['level'])


def _run(ctx, chk):
    for k, v in RULES.items():
        chk.rule(k, v)
    chk.explanation = (
        "Ownership/effect analysis over MIR (engines E1+E2). The concurrent property is reduced to structural "
        "conditions that are sufficient on paper (DESIGN C03): orders are immutable values; DashMap::remove hands an "
        "entry to exactly one caller; if every counter delta is a function of values the operation exclusively owns "
        "(K1,K3) and is applied with commutative atomic RMWs (K2), the counters at quiescence equal the sum over the "
        "resting orders whatever the interleaving. The rules are checked on every CFG path of the three mutators and "
        "of OrderQueue's primitives. No schedule is enumerated; this is a static ownership argument.")
    chk.assumptions = ["sequentially consistent execution of the primitive operations (as the property states)",
                       "DashMap::remove is linearizable and, with unique ids, returns an entry to one caller only",
                       "SegQueue is a linearizable FIFO"]
    chk.not_decided = ["weak-memory effects", "dashmap/crossbeam internals", "duplicate ids"]
    L = LevelAnalysis(ctx)
    Q = QueueAnalysis(ctx)
    LR.rule_owned_operands(ctx, chk, L, "K1")
    LR.rule_rmw_only(ctx, chk, L, "K2")
    LR.rule_inplace_same_id(ctx, chk, L, "K4")
    LR.rule_unanalysed_writers(ctx, chk, L, "K2")
    LR.rule_balance_conc(ctx, chk, L, "K3")
    Q.rule_pop(chk, "K4", "K4", "K4")
    Q.rule_remove_find(chk, "K4")
    Q.who_may(chk, "K4")
    Q.rule_private(chk, "K4")
    chk.stats["paths"] = {n: len(L.paths(n)[1]) for n in ("add_order", "match_order", "update_order")}
