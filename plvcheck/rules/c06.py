"""C06 - matching terminates and exhausts the displayed liquidity."""
from ..level import LevelAnalysis, container_local
from ..queue import QueueAnalysis
from ..terms import affine, prove_zero, prove_pos, short, Int, subterms
from ..common import describe_path
from .. import lvlrules as LR
from .c01 import segments

RULES = {
    "T1": "exits of the match loop: match_order returns with quantity remaining only on a path where Q.pop reported an empty queue; every other exit has remaining == 0",
    "T2": "progress: every iteration that reaches the back edge either does not re-insert the popped order into the queue (removed or parked), or re-inserts it with strictly less hidden quantity, or with equal hidden quantity and strictly less remaining quantity (lexicographic variant: entries, hidden sum, remaining)",
    "T3": "parked orders come back: every local container that receives orders inside the loop is drained into Q.push by a forward loop on every path from the loop exit to return",
    "T4": "OrderQueue::pop terminates: it loops only after consuming a ticket on a map miss and reports empty only when the ticket queue is exhausted",
    "T6": "an order parked for the rest of the call displays nothing: display(parked) == 0 is provable from the path facts (otherwise the call can return with quantity remaining while displayed liquidity is left)",
    "T7": "every resting order is reachable by pop: the only map insertion is OrderQueue::push, which also appends the ticket of the order's own id; the queue constructors (from_vec / From<Vec> used by every restore path / FromStr / Deserialize) push every element once; nobody else touches the map or the tickets - otherwise an order that displays quantity can never be matched and match_order returns with quantity remaining",
    "T8": "a match request returns, it does not panic: the only panic-capable sites in the call closure of match_order are the checked subtractions / additions of match_against, each guarded on its path (C05 A4), the `quantity * price` of record_execution (excluded by the property's precondition: sums fit in 64 bits) and an `expect`/`unwrap` applied directly to `SystemTime::duration_since(.., UNIX_EPOCH)` (Transaction::new's, or a shared clock helper's: the system clock is not before 1970); any other site (an unchecked `a - b` on a user-supplied timestamp, an unwrap, an index) is reported",
    "T0": "coverage: the match loop has iteration paths and exit paths",
}


def main_loop_info(r, fn):
    """(marker_index, havoc term of the loop-tested local, local idx) for the first loop of `fn` on path r"""
    for i, e in enumerate(r.trace):
        if e[0] == "loop" and e[3] == fn:
            return i, e
    return None, None


def remaining_local(r, marker):
    """the local tested by the loop header: first fact about a havoc of this header"""
    key = marker[1]
    for atom, pol in r.facts.order:
        if atom[0] == "lt" and atom[1] == Int(0) and isinstance(atom[2], tuple) and atom[2][0] == "havoc" and atom[2][1] == key:
            return atom[2]
        # `if left == 0 { break }` at the top of a `loop`: the same test spelled as an inequality
        if atom[0] == "eq" and pol is False:
            for x, z in ((atom[1], atom[2]), (atom[2], atom[1])):
                if z == Int(0) and isinstance(x, tuple) and x[0] == "havoc" and x[1] == key:
                    return x
    return None


def _clock_since_epoch(body, bb):
    """is the expect/unwrap at block bb applied to SystemTime::duration_since(.., UNIX_EPOCH)'s own result (directly or
    through single-assignment moves into named locals)?"""
    t = body.blocks[bb]["term"]
    if t["k"] != "call" or not t["args"] or "SystemTimeError" not in (t["callee"].get("path_args") or ""):
        return False
    a0 = t["args"][0]
    if a0.get("k") not in ("move", "copy") or a0["place"]["p"]:
        return False
    loc = a0["place"]["l"]
    for _ in range(6):
        cdefs = [blk["term"] for blk in body.blocks if blk["term"]["k"] == "call" and blk["term"].get("dest") and blk["term"]["dest"]["l"] == loc]
        sdefs = [st for blk in body.blocks for st in blk.get("stmts", []) if st.get("k") == "assign" and st["place"]["l"] == loc]
        if len(cdefs) + len(sdefs) != 1:
            return False
        if sdefs:
            rv = sdefs[0]["rv"]
            if sdefs[0]["place"]["p"] or rv["k"] != "use" or rv["op"].get("k") not in ("move", "copy") or rv["op"]["place"]["p"]:
                return False
            loc = rv["op"]["place"]["l"]
            continue
        d = cdefs[0]
        if d["dest"]["p"] or d["callee"] is None or not d["callee"]["path"].endswith("SystemTime::duration_since"):
            return False
        a = d["args"]
        return len(a) == 2 and a[1].get("k") == "const" and "UNIX_EPOCH" in (a[1].get("text") or "")
    return False


def run(ctx, chk):
    for k, v in RULES.items():
        chk.rule(k, v)
    chk.explanation = (
        "Termination/liveness structure over the MIR paths of PriceLevel::match_order with match_against inlined (E1): "
        "loop exits are classified by the facts that hold on them (T1), each iteration path must decrease a "
        "lexicographic variant provably from its path facts (T2: affine reasoning, min/max case split, no solver), "
        "parked orders must be drained on all exits (T3) and must display nothing (T6), and OrderQueue::pop's own loop "
        "must consume a ticket per iteration (T4). With C05 (an order visited with consumed = 0 while incoming > 0 "
        "displays 0) this gives on paper: at a pop->None exit nothing displayed is left. Nothing is executed.")
    chk.assumptions = ["single-threaded execution (another thread can feed the queue for ever)", "the ticket queue is finite"]
    chk.not_decided = ["termination under concurrent producers", "wall-clock bounds"]
    L = LevelAnalysis(ctx)
    Q = QueueAnalysis(ctx)
    Q.rule_push(chk, "T7", None)
    Q.rule_constructors(chk, "T7")
    Q.who_may(chk, "T7")
    b, res = rule_exhaustion(ctx, chk, L)
    fn = b.defp
    rule_drain(ctx, chk, L, "T3")
    # ---------------- T8 no panic in the closure of match_order
    from .c18 import static_sites
    from .c05 import rule_arith_guards
    allowed = {("match_against", "assert:overflow:Sub"), ("match_against", "assert:overflow:Add"),
               ("record_execution", "assert:overflow:Mul"), ("new", "call:expect")}
    reach8 = ctx.cg.reach([b.defp])
    n8 = 0
    own_sites = set()
    EXPLICIT_PANICS = {"call:assert_failed", "call:panic_fmt", "call:panic", "call:panic_explicit", "call:unreachable", "call:panic_display", "call:begin_panic"}
    for d in sorted(reach8):
        bd = ctx.db.bodies[d]
        owner = bd
        while owner.kind == "Closure" and owner.parent in ctx.db.bodies:
            owner = ctx.db.bodies[owner.parent]
        for bb, kind, text, span in static_sites(ctx.db, bd):
            n8 += 1
            if kind in EXPLICIT_PANICS:
                continue        # assert! / debug_assert! / panic!: the developer's own statement of an invariant, taken as such
            if owner.defp == b.defp:
                own_sites.add((d, bb, kind, span))
                continue        # match_order's own arithmetic: discharged on its paths below
            okk = (owner.name, kind) in allowed and (owner.name != "new" or "Transaction" in (owner.impl_self or ""))
            if not okk and kind in ("call:expect", "call:unwrap") and _clock_since_epoch(bd, bb):
                okk = True      # the same exemption as Transaction::new's, wherever the clock read lives (a shared helper)
            chk.require(okk, "T8", "%s:%s" % (owner.defp, kind), span,
                        "%s in %s is reachable from match_order: a match request could panic instead of returning" % (kind, owner.defp))
    chk.require(n8 >= 10, "T8", "sites-found", b.span, "only %d panic-capable sites found in the closure of match_order" % n8)
    rule_arith_guards(ctx, chk, "T8")
    # match_order's own checked arithmetic (e.g. inside a debug_assert condition): on every path that reaches it the
    # operation cannot overflow - a - b under b <= a, or a + b that reduces to a single unsigned quantity (q + (rem - q))
    from ..terms import linsys_from_facts, prove_nonneg
    for r in res:
        for e in r.events("assert"):
            _, msg, ops, site8, nf, span, cond, expected = e
            if not site8 or site8[-1][0] != b.defp or not msg.startswith("overflow"):
                continue
            ok8, why8 = False, "no rule applies"
            if "Sub" in msg and len(ops) == 2:
                ok8, why8 = prove_nonneg(affine(ops[0]).add(affine(ops[1]), -1), r.facts)
            elif "Add" in msg and len(ops) == 2:
                red = linsys_from_facts(r.facts).reduce(affine(ops[0]).add(affine(ops[1])))
                ok8 = red.is_const() and red.k < 2 ** 63 or (len(red.c) == 1 and list(red.c.values())[0] == 1 and red.k <= 0)
                why8 = "sum is %r" % red
            chk.require(ok8, "T8", "%s:%s:own" % (b.defp, msg), span, "%s in match_order itself is not guarded on this path: %s" % (msg, why8), describe_path(r))
    for d8, bb8, kind8, span8 in sorted(own_sites):
        if not kind8.startswith("assert:overflow"):
            chk.fail("T8", "%s:%s" % (b.defp, kind8), span8, "%s in match_order itself: a match request could panic instead of returning" % kind8)
    Q.rule_pop(chk, "T4", "T4", "T4", seq=True)


def rule_exhaustion(ctx, chk, L):
    """T0/T1/T2/T6 over match_order's paths: exits only with nothing remaining or after the queue reported empty, every
    iteration makes progress, parked orders display nothing (shared with C08's draining-match sentence)"""
    b, res, stats = L.paths("match_order")
    fn = b.defp
    chk.stats["paths"] = len(res)
    n_iter = n_exit = 0
    for r in res:
        if not LR.usable(chk, "T0", fn, b.span, r):
            continue
        mi, marker = main_loop_info(r, fn)
        if marker is None:
            chk.fail("T0", fn + ":no-loop", b.span, "a path of match_order does not enter a loop", describe_path(r), undecided=True)
            continue
        loops = [e for e in r.trace if e[0] == "loop"]
        # ---------------- T1 exits
        if r.kind == "return":
            n_exit += 1
            v = r.value
            from ..terms import get_field
            rq = get_field(v, "remaining_quantity")
            if rq is None or (isinstance(rq, tuple) and rq[0] == "field"):
                chk.fail("T1", fn + ":result-shape", b.span, "cannot read remaining_quantity of the returned value %s" % short(v)[:200], describe_path(r), undecided=True)
                continue
            end = len(r.trace)
            for j in range(mi + 1, len(r.trace)):
                if r.trace[j][0] == "loop":
                    end = j
                    break
            seg_ids = set(id(e) for e in r.trace[mi + 1:end])
            miss = [x for x in L.queue_events(r.trace, r.facts) if x[0] == "miss" and id(x[2]) in seg_ids and x[2][1] == "Q.pop"]
            zero = r.facts.known_zero(rq) or prove_zero(affine(rq), r.facts)[0]
            chk.require(zero or bool(miss), "T1", fn, b.span,
                        "match_order can return with remaining_quantity = %s (not known to be 0) although the queue was not reported empty: "
                        "displayed liquidity may be left behind" % short(rq), describe_path(r))
        # ---------------- T2 progress on main-loop iterations
        if r.kind == "backedge" and len(loops) == 1:
            n_iter += 1
            seg_ids = set(id(e) for e in r.trace[mi + 1:])
            qev = [x for x in L.queue_events(r.trace, r.facts) if id(x[2]) in seg_ids]
            taken = [o for k, o, e in qev if k == "take"]
            pushes = [(o, e) for k, o, e in qev if k == "push"]
            parks = [(o, e) for k, o, e in qev if k == "park"]
            if not taken:
                chk.fail("T2", fn + ":iteration-without-pop", b.span, "an iteration reaches the back edge without taking an order", describe_path(r))
                continue
            o = taken[0]
            for o2, e in pushes:
                ro, ro2 = L.R.role(o, r.facts, "reserve"), L.R.role(o2, r.facts, "reserve")
                dres = affine(ro).add(affine(ro2), -1)
                ok, why = prove_pos(dres, r.facts)
                how = "hidden strictly decreases"
                if not ok:
                    # lexicographic variant (hidden, remaining): hidden does not grow and remaining strictly decreases
                    from ..terms import prove_nonneg
                    eqres, _ = prove_nonneg(dres, r.facts)
                    hv = remaining_local(r, marker)
                    if eqres and hv is not None:
                        newv = r.state.frames[0].locals.get(hv[2])
                        ok, why = prove_pos(affine(hv).add(affine(newv), -1), r.facts)
                        how = "hidden does not grow, remaining strictly decreases"
                    else:
                        ok = False
                chk.require(ok, "T2", fn, e[5],
                            "an order is popped and pushed straight back with no provable progress (nothing consumed, nothing moved from hidden): "
                            "the loop can pop it again for ever (%s)" % why, describe_path(r))
                if ok and len(chk.samples) < 6:
                    chk.sample({"rule": "T2", "progress": how, "facts": r.facts.describe(8)})
            # ---------------- T6
            for o2, e in parks:
                d2 = L.R.role(o2, r.facts, "display")
                ok, why = prove_zero(affine(d2), r.facts)
                chk.require(ok, "T6", fn, e[5],
                            "an order displaying %s (not provably 0) is parked for the rest of the call: the match may return with quantity "
                            "remaining while that order still shows quantity (%s)" % (short(d2), why), describe_path(r))
    chk.require(n_iter >= 4 and n_exit >= 2, "T0", fn + ":shape", b.span, "match loop: %d iteration paths, %d exit paths" % (n_iter, n_exit))
    return b, res


def rule_drain(ctx, chk, L, rid):
    """T3/Q4: park targets are drained by a forward `for x in container { Q.push(x) }` on every return path"""
    b, res, _ = L.paths("match_order")
    fn = b.defp
    targets = set()
    for r in res:
        for k, o, e in L.queue_events(r.trace, r.facts):
            if k == "park":
                cl = container_local(e[2][0])
                if cl is not None:
                    targets.add(cl)
    chk.stats["park_targets"] = sorted(targets)
    if not targets:
        chk.ok(rid, fn + ":no-parking", b.span)
        return
    for (fid, l) in targets:
        if fid != 0:
            chk.fail(rid, fn + ":park-in-callee", b.span, "orders are parked in a container of an inlined callee", undecided=True)
            continue
        for r in res:
            if r.kind != "return":
                continue
            # the container's value at the point of into_iter must be the (havocked) park target, and the loop over it
            # must have run to exhaustion (next -> None)
            drained = False
            for i, e in enumerate(r.trace):
                if e[0] == "call" and e[1].endswith("into_iter") and any(
                        isinstance(s, tuple) and s[0] == "havoc" and len(s) == 3 and s[2] == l for a in e[2] for s in subterms(a)):
                    for e2 in r.trace[i + 1:]:
                        if e2[0] == "call" and e2[1].endswith("::next") and r.facts.variant.get(e2[3]) == "None":
                            drained = True
            for e in r.trace:
                if e[0] == "call" and e[1] in ("std::vec::Vec::pop", "std::collections::VecDeque::pop_front", "std::collections::VecDeque::pop_back") \
                        and e[2] and container_local(e[2][0]) == (0, l) and r.facts.variant.get(e[3]) == "None":
                    drained = True
            chk.require(drained, rid, fn + ":drained-on-exit", b.span,
                        "a path returns without draining the container of parked orders (local %s): those orders would be counted but gone" % b.local_name(l),
                        describe_path(r))
        # iteration paths of the drain loop push the element they took
        for r in res:
            if r.kind != "backedge":
                continue
            qev = L.queue_events(r.trace, r.facts)
            un = [x for x in qev if x[0] == "unpark"]
            if not un:
                continue
            last = un[-1]
            pos = {id(e): i for i, e in enumerate(r.trace)}
            pushed = [x for x in qev if x[0] == "push" and pos[id(x[2])] > pos[id(last[2])]]
            chk.require(len(pushed) == 1 and pushed[0][1] == last[1], rid, fn + ":drain-pushes-element", b.span,
                        "the drain loop does not push the element it took (%s)" % [short(x[1])[:80] for x in pushed], describe_path(r))
