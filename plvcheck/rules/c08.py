"""C08 - concurrent operations never strand or duplicate an order."""
from ..level import LevelAnalysis
from ..queue import QueueAnalysis
from .. import lvlrules as LR
from . import c06

RULES = {
    "Q1": "publish order in OrderQueue::push: exactly one map insert (id -> order) and one ticket append of the same id on every path, the insert first",
    "Q2": "every map entry has a ticket: DashMap::insert on the order map occurs only in OrderQueue::push, SegQueue::pop only in OrderQueue::pop, DashMap::remove only in pop/remove, and nothing outside OrderQueue touches the two containers",
    "Q3": "single hand-out: pop and remove return the payload of their own map removal; pop skips only tickets whose order is gone and reports empty only when the ticket queue is exhausted",
    "Q4": "nothing is dropped on the floor: on every path of the mutators an order taken from the queue is re-inserted, parked and later drained, or fully discounted (balance without aliasing); parked orders are re-queued on every exit",
    "Q5": "the two storage fields are private",
    "Q6": "a sufficiently large match leaves nothing displayed: match_order returns only with nothing remaining or after the queue reported empty, every iteration that re-inserts the popped order makes progress (less hidden, or equal hidden and less remaining), and an order parked for the rest of the call provably displays nothing (C06's T1/T2/T6 on the same paths)",
}


def run(ctx, chk):
    _run(ctx, chk)
    if ctx.tier == "thorough":
        from ..witness import run_witnesses
        chk.rule("W", "(thorough) compile_fail witnesses: naming the private state of the level from outside the crate is rejected by rustc (E0616), while the twin using only public accessors type-checks")
        run_witnesses(ctx, chk, "W", ['level'])


def _run(ctx, chk):
    for k, v in RULES.items():
        chk.rule(k, v)
    chk.explanation = (
        "Pairing/ordering and who-may-call rules over MIR (E1+E2) on OrderQueue::{push,pop,remove,find} and on the "
        "PriceLevel mutators. Paper argument (DESIGN C08): with Q1 a popper that takes a ticket finds the entry unless "
        "someone else removed it; with Q2 no entry exists without a ticket at or behind the head; with Q3 an entry goes "
        "to exactly one taker; with Q4 a taker puts it back through push or accounts for it. No schedule is explored.")
    chk.assumptions = ["DashMap / SegQueue are linearizable", "unique ids among resting orders"]
    chk.not_decided = ["linearizability of the containers", "the 'sufficiently large match drains everything' sentence itself (its sequential structure is Q6; under concurrency it follows from C06 + Q2 on paper)"]
    Q = QueueAnalysis(ctx)
    L = LevelAnalysis(ctx)
    Q.rule_push(chk, "Q1", "Q1")
    Q.who_may(chk, "Q2")
    Q.rule_pop(chk, "Q3", "Q3", "Q3")
    Q.rule_remove_find(chk, "Q3")
    LR.rule_balance_conc(ctx, chk, L, "Q4")
    LR.rule_unanalysed_writers(ctx, chk, L, "Q4")
    c06.rule_drain(ctx, chk, L, "Q4")
    Q.rule_private(chk, "Q5")
    from ..report import Relabel
    c06.rule_exhaustion(ctx, Relabel(chk, "Q6", "drain:"), L)
