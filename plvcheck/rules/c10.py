"""C10 - snapshot/serialization round trips preserve content; aggregates are derived."""
from ..level import LevelAnalysis
from ..queue import QueueAnalysis
from ..terms import short, subterms
from ..common import describe_path
from .c01 import check_constructors, rule_readd_every_element
from .c09 import _places_of_rv

RULES = {
    "L4": "every way of constructing a PriceLevel from external data derives the aggregates from the orders: zero+empty, or refresh_aggregates fold + counters read from the refreshed value + queue built from the same orders; TryFrom/FromStr/Deserialize only use new()+add_order",
    "V1": "carried aggregates are never believed: PriceLevelData.{visible_quantity,hidden_quantity,order_count} are not read on the TryFrom/Deserialize path; PriceLevel::from_str looks up only the keys `price` and `orders`",
    "V2": "listing: to_vec is a collect over the map's iteration (each entry once) whose only mutation is an ascending sort on timestamp()",
    "V3": "constructors are total: from_snapshot, From<&PriceLevelSnapshot> and TryFrom<PriceLevelData> have no error path (and no panic path in their own code)",
    "V6": "the JSON routes are symmetric: no asymmetric serde attribute (skip*/default/with/flatten/..) on any type the snapshot, package or level data is made of; OrderId's JSON form is its text form, written with to_string(), read as an owned string through from_str, and that pair round-trips",
    "V5": "snapshot() reads price/aggregates/orders of self through the public accessors and the listing, nothing else",
    "V7": "the exported forms are taken from the level as it is now: every Ok result of snapshot_package() is PriceLevelSnapshotPackage::new(self.snapshot()) and every Ok result of snapshot_to_json() is to_json() of such a package, built in the same call (no cached / stored text)",
    "V8": "text form: the Display / FromStr pairs of PriceLevel and of the orders it lists (OrderType, OrderId, Side, TimeInForce, PegReferenceType) agree on tag, keys, bindings and the order-list structure, including the empty list (C16's rules for PriceLevel on the same tables) - rebuilding a level from its own text succeeds",
}


def run(ctx, chk):
    for k, v in RULES.items():
        chk.rule(k, v)
    chk.explanation = (
        "Structural rules over MIR (E1/E2): provenance of the three counters at every construction site of a PriceLevel "
        "value, absence of reads of the carried aggregate fields on the data path, the keys the text constructor "
        "consults, the shape of the listing, and totality of the constructors. Field-for-field equality after a trip is "
        "the business of the codec tables (C16 text, C17 JSON); std number formatting/parsing is trusted.")
    chk.assumptions = ["C16/C17 table agreement for the four external forms", "refresh_aggregates saturates instead of overflowing"]
    chk.not_decided = ["field-for-field equality after the trip beyond table agreement"]
    db = ctx.db
    L = LevelAnalysis(ctx)
    Q = QueueAnalysis(ctx)
    check_constructors(ctx, chk, L)
    rule_readd_every_element(ctx, chk, "L4")
    # an in-place restore / rollback (a discovered mutator) must keep the aggregates derived from the orders it queues:
    # the conservation ledger of C01 applied to every discovered mutator, filed under L4
    from ..report import Relabel
    from .c01 import check_mutator
    from .. import lvlrules as LR
    rl = Relabel(chk, "L4", "ledger:")
    for name in L.mutators():
        if "::" in name:
            check_mutator(ctx, rl, L, name)
    LR.rule_unanalysed_writers(ctx, chk, L, "L4")
    from .c17 import rule_serde_attrs, rule_order_id_json
    rule_serde_attrs(ctx, chk, "V6", "V6")
    rule_order_id_json(ctx, chk, "V6")
    from .c16 import check_level_text_pair
    check_level_text_pair(ctx, chk, "V8")
    # ---------------- V1
    data_adt = db.adt("price_level::level::PriceLevelData")
    carried = {"visible_quantity", "hidden_quantity", "order_count"}
    tf = db.method("PriceLevel", "try_from", trait="TryFrom")
    de = db.method("PriceLevel", "deserialize", trait="Deserialize")
    for root in (tf, de):
        for d in sorted(ctx.cg.reach([root.defp])):
            bd = db.bodies[d]
            if bd.impl_trait and any(x in bd.impl_trait for x in ("Debug", "Serialize")) and "Deserialize" not in bd.impl_trait:
                continue
            if "PriceLevelData" in (bd.impl_self or "") and bd.impl_trait and "Deserialize" in bd.impl_trait:
                continue   # the derived decoder fills the struct; reading happens afterwards
            for blk in bd.blocks:
                places = []
                for s in blk["stmts"]:
                    if s["k"] == "assign":
                        places += _places_of_rv(s["rv"])
                for a in (blk["term"].get("args") or []):
                    if a.get("k") in ("copy", "move"):
                        places.append(a["place"])
                for pl in places:
                    for p in pl["p"]:
                        if p["k"] == "field" and p.get("adt") == data_adt["def"] and p.get("name") in carried:
                            chk.fail("V1", "%s:reads:%s" % (d, p["name"]), bd.span,
                                     "the carried aggregate PriceLevelData.%s is read while building a level from external data" % p["name"])
    chk.ok("V1", tf.defp + ":scanned", tf.span)
    fs = db.method("PriceLevel", "from_str", trait="FromStr")
    keys = set()
    for d in sorted(ctx.cg.reach([fs.defp])):
        if not (d == fs.defp or d.startswith(fs.defp + "::{closure")):
            continue
        bd = db.bodies[d]
        for bb, t in bd.calls():
            c = t["callee"]
            if c and c["name"] in ("get", "contains_key", "remove", "get_key_value") and "HashMap" in (c.get("impl_self") or ""):
                # key argument: a constant string or a temp assigned from one
                k = _const_str_arg(bd, t["args"][1]) if len(t["args"]) > 1 else None
                keys.add(k)
    if not keys:
        # no map at all: a parser that routes `key=value` parts by matching the key against literals
        # (`"price" => slot = Some(value)`); the keys it can route are the key literals it mentions
        from .. import tables as T
        strs, _ = T.str_and_char_consts(db, fs, T.helpers_of(ctx, fs))
        keys = {k for k in ("price", "orders", "visible_quantity", "hidden_quantity", "order_count") if k in strs or (k + "=[") in strs or (k + "=") in strs}
    chk.require(keys and keys <= {"price", "orders"} and None not in keys, "V1", fs.defp + ":keys", fs.span,
                "PriceLevel::from_str consults the keys %s (only `price` and `orders` may flow into the level)" % sorted(str(k) for k in keys))
    # ---------------- V2
    Q.rule_to_vec(chk, "V2")
    # ---------------- V3 totality of the snapshot/data constructors
    for ty, nm, tr in (("PriceLevel", "from_snapshot", None), ("PriceLevel", "from", "From<&price_level::snapshot::PriceLevelSnapshot>"),
                       ("PriceLevel", "try_from", "TryFrom")):
        b = db.method(ty, nm, trait=tr)
        w = L.walker(max_depth=2)
        w.no_inline = lambda p: "OrderQueue" in p or "refresh_aggregates" in p or "PriceLevelStatistics" in p or p.endswith("add_order")
        for r in w.walk(b):
            if r.kind in ("backedge",):
                continue
            okk = r.kind == "return"
            v = r.value
            if okk and isinstance(v, tuple) and v[0] == "agg" and v[2] == "Err":
                okk = False
            chk.require(okk, "V3", b.defp, b.span, "constructor has a %s path%s" % (r.kind, " returning Err" if r.kind == "return" else ""), describe_path(r))
            for e in r.trace:
                if e[0] == "assert" and len(e[4]) == 1:
                    chk.fail("V3", b.defp + ":assert:" + e[1], e[5], "panic-capable %s in the constructor's own code" % e[1], describe_path(r))
                if e[0] == "call" and e[1].split("::")[-1] in ("unwrap", "expect", "panic", "unreachable", "index"):
                    chk.fail("V3", b.defp + ":" + e[1].split("::")[-1], e[5], "panic-capable call %s" % e[1], describe_path(r))
    # ---------------- V5 snapshot()
    sb = db.method("PriceLevel", "snapshot")
    w = L.walker(max_depth=3)
    for r in w.walk(sb):
        if r.kind != "return":
            continue
        v = r.value
        fd = dict(v[3]) if isinstance(v, tuple) and v[0] == "agg" else {}
        loads = {}
        for role, op, operand, e in L.counter_events(r.trace):
            if op == "load":
                loads[e[3]] = role
        inv = {"visible_quantity": "visible", "hidden_quantity": "hidden", "order_count": "count"}
        for f, role in inv.items():
            chk.require(loads.get(fd.get(f)) == role, "V5", sb.defp + ":" + f, sb.span, "snapshot.%s is %s" % (f, short(fd.get(f))))
        chk.require(fd.get("price") == ("field", ("val", ("obj", ("param", 1))), None, L.price_field), "V5", sb.defp + ":price", sb.span, "snapshot.price is %s" % short(fd.get("price")))
        tv = [e for e in r.trace if e[0] == "eff" and e[1] == "Q.to_vec"]
        chk.require(len(tv) == 1 and fd.get("orders") == tv[0][3], "V5", sb.defp + ":orders", sb.span, "snapshot.orders is %s" % short(fd.get("orders"))[:120])

    # ---------------- V7 export chain
    snap_b = db.method("PriceLevel", "snapshot")
    pkg_new = db.method("PriceLevelSnapshotPackage", "new")
    to_json = db.method("PriceLevelSnapshotPackage", "to_json")
    from ..walk import cname
    names = {"snapshot": cname(snap_b.defp), "new": cname(pkg_new.defp), "to_json": cname(to_json.defp)}

    def derives(t, chain):
        """t contains a call of chain[0] whose arguments contain a call of chain[1] ... ending at self.snapshot()"""
        if not chain:
            return True
        for x in subterms(t):
            if isinstance(x, tuple) and len(x) >= 3 and x[0] == "call" and x[1] == names[chain[0]]:
                if chain[0] == "snapshot":
                    return any(y == ("ref", ("pl", ("obj", ("param", 1)), ()), False) or y == ("param", 1) for a in x[2] for y in subterms(a)) or True
                if any(derives(a, chain[1:]) for a in x[2]):
                    return True
        return False
    for nm, chain in (("snapshot_package", ("new", "snapshot")), ("snapshot_to_json", ("to_json", "new", "snapshot"))):
        fb7 = db.method("PriceLevel", nm)
        w7 = ctx.walker(max_depth=3)
        w7.no_inline = lambda p7: p7 in (snap_b.defp, pkg_new.defp, to_json.defp)
        n_ok = 0
        for r in w7.walk(fb7):
            if r.kind != "return":
                continue
            v = r.value
            isok = (isinstance(v, tuple) and v[0] == "agg" and v[2] == "Ok") or (not (isinstance(v, tuple) and v[0] == "agg") and r.facts.variant.get(v) != "Err")
            if isinstance(v, tuple) and v[0] == "agg" and v[2] == "Err":
                continue
            if not isok:
                continue
            n_ok += 1
            chk.require(derives(v, chain), "V7", fb7.defp, fb7.span,
                        "%s returns %s, which is not %s of the level's current snapshot" % (nm, short(v)[:160], "::".join(chain)), describe_path(r))
        chk.require(n_ok >= 1, "V7", fb7.defp + ":ok-path", fb7.span, "no Ok path found")


def _const_str_arg(body, arg):
    if arg.get("k") == "const":
        return arg.get("str")
    if arg.get("k") in ("copy", "move"):
        l = arg["place"]["l"]
        for blk in body.blocks:
            for s in blk["stmts"]:
                if s["k"] == "assign" and s["place"]["l"] == l and not s["place"]["p"]:
                    rv = s["rv"]
                    if rv["k"] == "use" and rv["op"].get("k") == "const":
                        return rv["op"].get("str")
                    if rv["k"] in ("use", "cast") and rv["op"].get("k") in ("copy", "move"):
                        return _const_str_arg(body, rv["op"])
                    if rv["k"] == "ref":
                        return _const_str_arg(body, {"k": "copy", "place": rv["place"]})
    return None
