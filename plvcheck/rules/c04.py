"""C04 - time priority: necessary structural conditions."""
from ..level import LevelAnalysis
from ..queue import QueueAnalysis
from .. import lvlrules as LR
from ..terms import short
from ..common import describe_path
from .c19 import rule_stale_tickets
from .c01 import segments

RULES = {
    "P1": "FIFO primitives (push = insert + ticket of own id; pop = entry of the ticket just taken, skipping only removed ids); nobody else pushes or pops tickets",
    "P2": "constructors keep input order (forward iteration, one push of the current element)",
    "P3": "new and replenished orders join at the back: add_order and the replenish path insert through Q.push, the only insertion primitive",
    "P4": "no tail re-queue of an unreplenished survivor: in match_order a Q.push of an order derived from the popped one is allowed only on paths where hidden_reduced > 0 (a partially filled order must keep its place)",
    "P5": "tickets cannot go stale (see C19)",
    "P7": "hidden quantity never trades in place: on every path of match_against, for every variant, consumed = min(incoming, displayed) (C05's A5 'consumed' clause on the same paths) - quantity replenished from hidden in the same visit would trade ahead of displayed orders queued behind, and consuming less than the display would let a later order trade while an earlier one still displays quantity",
    "P6": "orders parked during a match are re-queued in the order they were parked (forward drain of the container)",
}


def run(ctx, chk):
    _run(ctx, chk)
    if ctx.tier == "thorough":
        from ..witness import run_witnesses
        chk.rule("W", "(thorough) compile_fail witnesses: naming the private state of the queue from outside the crate is rejected by rustc (E0616), while the twin using only public accessors type-checks")
        run_witnesses(ctx, chk, "W", ['queue'])


def _run(ctx, chk):
    for k, v in RULES.items():
        chk.rule(k, v)
    chk.explanation = (
        "Only necessary structural conditions of time priority are decided (the ordering relation over all histories is "
        "not a static property): shape of the FIFO primitives, order-preserving constructors, insertion only through "
        "push, and two conditions the pinned tree violates by construction (P4: every surviving maker is re-queued at "
        "the tail; P5: stale tickets) which are recorded as known findings. Rules run over MIR paths (E1) and the call graph (E2).")
    chk.not_decided = ["the full priority relation over histories", "that a same-price amend keeps its place (today only through the stale ticket)"]
    Q = QueueAnalysis(ctx)
    L = LevelAnalysis(ctx)
    Q.rule_push(chk, "P1", None)    # single-threaded property: the order of insert and ticket append is not observable
    Q.rule_pop(chk, "P1", "P1", "P1", seq=True)
    Q.who_may(chk, "P1")
    Q.rule_constructors(chk, "P2")
    # P3: add_order publishes through Q.push exactly once
    b, res, _ = L.paths("add_order")
    for r in res:
        if r.kind != "return":
            continue
        qev = L.queue_events(r.trace, r.facts)
        pushes = [x for x in qev if x[0] == "push"]
        chk.require(len(pushes) == 1 and len(qev) == 1, "P3", b.defp, b.span, "add_order queue events: %s" % [x[0] for x in qev], describe_path(r))
    # P4
    hits = {}
    # match_order and every other discovered mutator that pops (update_order removes by id: a same-price amend keeps
    # its place through the ticket left behind, see P5)
    popping = ["match_order"] + [n for n in L.mutators() if "::" in n]
    for b, res, _ in [L.paths(n) for n in popping]:
      for r in res:
        if r.kind not in ("return", "backedge"):
            continue
        for segname, lo, hi in segments(r):
            ids = set(id(e) for e in r.trace[lo:hi])
            qev = [x for x in L.queue_events(r.trace, r.facts) if id(x[2]) in ids]
            taken = [o for k, o, e in qev if k == "take" and e[1] == "Q.pop"]
            for k, o, e in qev:
                if k != "push" or not taken:
                    continue
                if not any(LR.same_id(L.R, t, o, r.facts) for t in taken):
                    continue
                # replenished on this path?  reserve(o') < reserve(taken)
                t = taken[0]
                from ..terms import affine, prove_zero
                diff = affine(L.R.role(t, r.facts, "reserve")).add(affine(L.R.role(o, r.facts, "reserve")), -1)
                zero, _ = prove_zero(diff, r.facts)
                if zero:
                    hits.setdefault(b.defp, (e, r))
    for key, (e, r) in hits.items():
        chk.fail("P4", key, e[5], "a maker that survives a fill without being replenished from hidden quantity is re-queued with push, "
                 "i.e. at the TAIL: it loses its time priority to every order behind it (A(10),B(10): match 4, match 4 trades B while A shows 6)",
                 describe_path(r))
    b, res, _ = L.paths("match_order")
    if b.defp not in hits:
        chk.ok("P4", b.defp, b.span)
    rule_stale_tickets(ctx, chk, Q, "P5", "C04")
    LR.rule_no_remove_then_push_in_extras(ctx, chk, L, "P5")
    # P7: C05's consumed clause (only that clause; the rest of C05 is not a condition of time priority)
    from . import c05
    from ..report import Relabel

    class OnlyConsumed(Relabel):
        n = 0

        def _keep(self, rule, key):
            return rule == "A5" and key.endswith(":consumed")

        def ok(self, rule, key, site="", detail=""):
            if self._keep(rule, key):
                OnlyConsumed.n += 1
                return Relabel.ok(self, rule, key, site, detail)
            return True

        def fail(self, rule, key, site="", detail="", path=None, undecided=False):
            if self._keep(rule, key):
                OnlyConsumed.n += 1
                return Relabel.fail(self, rule, key, site, detail, path, undecided=undecided)
            return False

        def require(self, cond, rule, key, site="", detail="", path=None):
            if self._keep(rule, key):
                OnlyConsumed.n += 1
                return Relabel.require(self, cond, rule, key, site, detail, path)
            return bool(cond)

        def sample(self, *a, **k):
            pass

    view = OnlyConsumed(chk, "P7", "match:")
    view.stats = {}
    c05.run(ctx, view)
    chk.stats["P7_consumed_obligations"] = OnlyConsumed.n
    chk.require(OnlyConsumed.n >= 14, "P7", "match_against:coverage", "", "only %d consumed-clause obligations (7 variants x 2 regions expected)" % OnlyConsumed.n)
    # P6 forward drain
    bad = set()
    for r in res:
        for e in r.trace:
            if e[0] == "call" and any(x in e[1] for x in ("Vec::pop", "::rev", "swap_remove", "sort", "::reverse", "next_back", "VecDeque::pop_back", "drain")):
                bad.add(e[1])
    chk.require(not bad, "P6", b.defp, b.span, "order-changing container operations in match_order: %s" % sorted(bad))
