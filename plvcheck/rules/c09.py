"""C09 - tampered, truncated or wrong-version snapshot packages are rejected."""
import re
from ..effects import make_effect_fn
from ..terms import short, Int, subterms, _eq_atom
from ..common import describe_path
from ..walk import cname

RULES = {
    "S1": "must-pass-through: from_snapshot_json -> from_json -> from_snapshot_package -> into_snapshot; the snapshot handed to from_snapshot is the Ok payload of into_snapshot; inside into_snapshot the snapshot field is returned untouched after the Ok edge of validate(&self)",
    "S2": "who-may-read the protected field: PriceLevelSnapshotPackage.snapshot is read inside the crate only by validate, into_snapshot, new and derived impls",
    "S3": "validate gates: every path to Ok(()) takes the equal edge of `self.version` vs SNAPSHOT_FORMAT_VERSION and the equal edge of `compute_checksum(&self.snapshot)?` vs `self.checksum` (a plain string equality)",
    "S4": "checksum covers everything: compute_checksum hashes serde_json::to_vec(<the whole parameter>) and formats the full digest ({:x}); Serialize for PriceLevelSnapshot emits one serialize_field per struct field fed by that field, the order list by forward iteration; no serde skip attribute and no substituted field serializer (serialize_with, with, getter, into, flatten) in the snapshot's type closure",
    "S5": "strict reader: the hand-written snapshot visitor rejects unknown keys (default arm -> unknown_field) and duplicate keys (each arm guarded -> duplicate_field), scalar fields missing -> missing_field; from_json uses serde_json::from_str (whole input)",
    "S6": "own packages validate: in PriceLevelSnapshotPackage::new the checksum is computed from the very value that is stored, after its last mutation, and the version stored is SNAPSHOT_FORMAT_VERSION",
}

PKG = "PriceLevelSnapshotPackage"


def argv(e):
    """arguments as the callee sees them (shared refs to locals passed by value)"""
    if e[0] == "call" and isinstance(e[3], tuple) and e[3][0] == "call":
        return e[3][2]
    return e[2]


PARAM1_REF = ("ref", ("pl", ("obj", ("param", 1)), ()), False)


def calls_named(r, suffix):
    return [e for e in r.trace if e[0] in ("call", "eff") and isinstance(e[1], str) and e[1].endswith(suffix)]


def _borrowing_seq_wrapper(ctx, val):
    """`&Wrapper(&self.orders)` where Wrapper's Serialize is `serializer.collect_seq(self.0.iter().map(..))`: the list is
    written in place, in order, through a crate-local newtype"""
    aggs = [x for x in subterms(val) if isinstance(x, tuple) and x and x[0] == "agg" and isinstance(x[1], str) and not x[1].startswith("closure:")]
    for a in aggs:
        name = a[1].split("::")[-1]
        try:
            wb = ctx.db.method(name, "serialize", trait="Serialize")
        except Exception:
            continue
        names = [t["callee"]["name"] for bb, t in wb.calls() if t["callee"]]
        for c in ctx.db.closures_of(wb.defp):
            names += [t["callee"]["name"] for bb, t in c.calls() if t["callee"]]
        if "collect_seq" in names and "iter" in names and not any(n in names for n in ("rev", "sort", "sort_by", "sort_by_key", "filter", "skip", "take", "step_by")):
            return True
    return False


def _same_hasher(r, writer_ev, fin_ev):
    """the value finalize consumes is the local the writer call mutated (`("mut", <to_writer call>, 0)` over the hasher)"""
    recv = fin_ev[2][0] if fin_ev[2] else None
    for x in subterms(recv):
        if isinstance(x, tuple) and len(x) == 3 and x[0] == "mut" and x[1] == writer_ev[3]:
            return True
    return False


def run(ctx, chk):
    for k, v in RULES.items():
        chk.rule(k, v)
    chk.explanation = (
        "Must-pass-through, who-may-read and value-provenance rules over the MIR of the restore path (E1+E2) and over "
        "the hand-written serde impls of PriceLevelSnapshot: validation cannot be bypassed, the checksum is a plain "
        "equality against a digest of the serialization of the whole snapshot, the serialization mentions every field, "
        "and the reader is strict. With SHA-256 collision resistance and serde_json's own totality (trusted) this gives "
        "the rejection of every content-changing edit. No fault is injected and nothing is run.")
    chk.assumptions = ["SHA-256 collision resistance", "serde_json rejects trailing characters and truncated documents", "derived Serialize impls emit every non-skipped field"]
    chk.not_decided = ["byte-level fault enumeration", "serde_json internals"]
    db = ctx.db
    cg = ctx.cg
    ver = [c for d, c in db.consts.items() if d.endswith("SNAPSHOT_FORMAT_VERSION")]
    chk.require(len(ver) == 1, "S3", "SNAPSHOT_FORMAT_VERSION", "", "constant not found")
    VER = Int(ver[0]["val"]) if ver else None

    def walk(ty, name, noinl, tr=None, classes=("ATOMIC", "MAP", "TICKET", "Q", "STAT")):
        b = db.method(ty, name, trait=tr)
        w = ctx.walker(max_depth=3)
        w.effect_of = make_effect_fn(set(classes))
        w.no_inline = lambda p: any(p.endswith(x) for x in noinl)
        return b, w.walk(b)

    # ---------------- S1
    b, res = walk("PriceLevel", "from_snapshot_json", ["from_json", "from_snapshot_package"])
    for r in res:
        if r.kind != "return":
            continue
        v = r.value
        fj = calls_named(r, "::from_json")
        if isinstance(v, tuple) and v[0] == "agg" and v[2] == "Err":
            continue
        ok = len(fj) == 1 and isinstance(v, tuple) and v[0] == "call" and v[1].endswith("from_snapshot_package") and v[2][0] == ("field", fj[0][3], "Ok", "0")
        chk.require(ok, "S1", b.defp, b.span, "from_snapshot_json returns %s" % short(v)[:200], describe_path(r))
        chk.require(fj and argv(fj[0])[0] == PARAM1_REF, "S1", b.defp + ":whole-input", b.span, "from_json is not applied to the input string itself")
    b, res = walk("PriceLevel", "from_snapshot_package", ["into_snapshot", "PriceLevel::from_snapshot"])
    for r in res:
        if r.kind != "return":
            continue
        v = r.value
        if isinstance(v, tuple) and v[0] == "agg" and v[2] == "Err":
            continue
        isn = calls_named(r, "::into_snapshot")
        ok = len(isn) == 1 and isinstance(v, tuple) and v[0] == "call" and v[1].endswith("::from_snapshot") and v[2][0] == ("field", isn[0][3], "Ok", "0") \
            and argv(isn[0])[0] == ("param", 1)
        chk.require(ok, "S1", b.defp, b.span, "from_snapshot_package builds the level from %s (must be the Ok payload of package.into_snapshot())" % short(v)[:200], describe_path(r))
    b, res = walk(PKG, "into_snapshot", ["::validate"])
    n_ok = 0
    for r in res:
        if r.kind != "return":
            continue
        v = r.value
        if isinstance(v, tuple) and v[0] == "agg" and v[2] == "Ok":
            n_ok += 1
            val = calls_named(r, "::validate")
            others = [e for e in r.trace if e[0] in ("call", "eff") and e not in val]
            okv = len(val) == 1 and r.facts.variant.get(val[0][3]) == "Ok" and argv(val[0])[0] in (("refval", ("param", 1)),)
            chk.require(okv, "S1", b.defp + ":validates-self", b.span, "into_snapshot does not return Ok only after validate(&self) returned Ok (%d validate calls)" % len(val), describe_path(r))
            snap = dict(v[3])["0"]
            chk.require(snap == ("field", ("param", 1), None, "snapshot"), "S1", b.defp + ":returns-own-snapshot", b.span,
                        "into_snapshot returns %s, not the untouched snapshot field of the validated package" % short(snap)[:200], describe_path(r))
            chk.require(not others, "S1", b.defp + ":nothing-else", b.span,
                        "into_snapshot also calls %s (the package must be validated exactly as it was received)" % [e[1] for e in others], describe_path(r))
    chk.require(n_ok == 1, "S1", b.defp + ":one-ok-path", b.span, "%d Ok paths" % n_ok)

    # ---------------- S2 who reads PriceLevelSnapshotPackage.snapshot
    pkg_adt = db.adt("price_level::snapshot::PriceLevelSnapshotPackage")
    readers = set()
    for d, bd in db.bodies.items():
        for blk in bd.blocks:
            places = []
            for s in blk["stmts"]:
                if s["k"] == "assign":
                    places += _places_of_rv(s["rv"])
            t = blk["term"]
            for a in (t.get("args") or []):
                if a.get("k") in ("copy", "move"):
                    places.append(a["place"])
            for pl in places:
                for p in pl["p"]:
                    if p["k"] == "field" and p.get("adt") == pkg_adt["def"] and p.get("name") == "snapshot":
                        readers.add(d)
    allowed = {db.method(PKG, "validate").defp, db.method(PKG, "into_snapshot").defp, db.method(PKG, "new").defp}
    for d in sorted(readers):
        bd = db.bodies[d]
        owner = bd
        while owner.kind == "Closure" and owner.parent in db.bodies:
            owner = db.bodies[owner.parent]
        derived = owner.impl_trait is not None and any(x in owner.impl_trait for x in ("Serialize", "Deserialize", "Debug", "Clone", "Visitor"))
        chk.require(d in allowed or derived, "S2", d, bd.span, "%s reads package.snapshot without going through into_snapshot()" % d)
    chk.require(len(readers & allowed) >= 2, "S2", "readers-found", "", "expected validate/into_snapshot among the readers, found %s" % sorted(readers))

    # ---------------- S3
    b, res = walk(PKG, "validate", ["compute_checksum"])
    selfv = ("val", ("obj", ("param", 1)))
    n_ok = 0
    for r in res:
        if r.kind != "return":
            continue
        v = r.value
        if not (isinstance(v, tuple) and v[0] == "agg" and v[2] == "Ok"):
            continue
        n_ok += 1
        at = _eq_atom(("field", selfv, None, "version"), VER)
        chk.require(r.facts.atoms.get(at) is True, "S3", b.defp + ":version-gate", b.span,
                    "a path reaches Ok(()) without the fact self.version == SNAPSHOT_FORMAT_VERSION", describe_path(r))
        cc = calls_named(r, "compute_checksum")
        okc = len(cc) == 1 and argv(cc[0])[0] == ("ref", ("pl", ("obj", ("param", 1)), (("f", None, "snapshot"),)), False)
        chk.require(okc, "S3", b.defp + ":recomputes-over-own-snapshot", b.span, "compute_checksum is not applied to &self.snapshot (%s)" % [short(e[2][0]) for e in cc], describe_path(r))
        if okc:
            at2 = _eq_atom(("field", cc[0][3], "Ok", "0"), ("field", selfv, None, "checksum"))
            chk.require(r.facts.atoms.get(at2) is True, "S3", b.defp + ":checksum-gate", b.span,
                        "a path reaches Ok(()) without the fact computed == self.checksum as a plain string equality", describe_path(r))
    chk.require(n_ok >= 1, "S3", b.defp + ":has-ok-path", b.span, "validate has no Ok path")

    # ---------------- S4
    b, res = walk(PKG, "compute_checksum", [])
    for r in res:
        if r.kind != "return":
            continue
        v = r.value
        if not (isinstance(v, tuple) and v[0] == "agg" and v[2] == "Ok"):
            continue
        tv = calls_named(r, "serde_json::to_vec") + calls_named(r, "serde_json::to_string") + calls_named(r, "serde_json::ser::to_vec")
        tw = calls_named(r, "serde_json::to_writer") + calls_named(r, "serde_json::ser::to_writer")
        if not tv and len(tw) == 1:
            # streaming form: serde_json::to_writer(&mut hasher, snapshot) feeds the same bytes to the hasher's io::Write
            a0, a1 = tw[0][2][0], argv(tw[0])[1]       # a0: the raw `&mut hasher` argument
            fin = calls_named(r, "::finalize")
            okw = a1 == PARAM1_REF and isinstance(a0, tuple) and a0[0] == "ref" and bool(a0[2]) and not calls_named(r, "::update")
            chk.require(okw, "S4", b.defp + ":whole-snapshot", b.span, "the hashed payload is not the whole snapshot parameter streamed into the hasher: %s" % short(a1), describe_path(r))
            # the hasher written to is the one finalized: finalize's receiver is the same local
            okh = bool(okw and len(fin) == 1 and _same_hasher(r, tw[0], fin[0]))
            chk.require(okh, "S4", b.defp + ":hash-of-payload", b.span, "the digest finalized is not the hasher the snapshot was streamed into", describe_path(r))
            okf = bool(fin) and any(s2 == fin[0][3] for s2 in subterms(dict(v[3])["0"]))
            chk.require(okf, "S4", b.defp + ":returns-digest", b.span, "the returned checksum does not derive from the finalized digest", describe_path(r))
            continue
        okt = len(tv) == 1 and argv(tv[0])[0] == PARAM1_REF
        chk.require(okt, "S4", b.defp + ":whole-snapshot", b.span, "the hashed payload is not serde_json::to_vec(<the whole snapshot parameter>): %s" % [short(e[2][0]) for e in tv], describe_path(r))
        up = calls_named(r, "::update") + calls_named(r, "::chain_update")
        fin = calls_named(r, "::finalize")
        if not up and not fin:
            # one-shot form: Sha256::digest(&payload)
            dg = calls_named(r, "::digest")
            if len(dg) == 1:
                a = argv(dg[0])[0]
                a = a[1] if isinstance(a, tuple) and a[0] == "refval" else a
                fake = ("call", "update", (None, a), None)
                up, fin = [("call", "update", (None, a), fake, (), "", None, 0, None)], dg
        okh = len(up) == 1 and len(fin) == 1 and tv and argv(up[0])[1] == ("field", tv[0][3], "Ok", "0")
        chk.require(okh, "S4", b.defp + ":hash-of-payload", b.span, "digest input is %s" % [short(e[2][1])[:80] for e in up], describe_path(r))
        okf = bool(fin) and any(s == fin[0][3] for s in subterms(dict(v[3])["0"]))
        chk.require(okf, "S4", b.defp + ":returns-digest", b.span, "the returned checksum does not derive from the finalized digest", describe_path(r))
    tpl = [f for f in db.fmt if "compute_checksum" in f["fns"]]
    full = [f for f in tpl if [p for p in f["pieces"] if "arg" in p] and all(("LowerHex" in p.get("trait", "") or "UpperHex" in p.get("trait", "")) and "precision: None" in p.get("opts", "")
                                                                               for p in f["pieces"] if "arg" in p) and not any("lit" in p and p["lit"] for p in f["pieces"])]
    chk.require(len(full) >= 1, "S4", b.defp + ":full-digest-format", b.span, "the digest is not formatted with a plain {:x}: %s" % [f["pieces"] for f in tpl])
    # Serialize for PriceLevelSnapshot
    sb = db.method("PriceLevelSnapshot", "serialize", trait="Serialize")
    snap_adt = db.adt("price_level::snapshot::PriceLevelSnapshot")
    sfields = [f["name"] for f in snap_adt["variants"][0]["fields"]]
    w = ctx.walker(max_depth=2)
    rets = [r for r in w.walk(sb) if r.kind == "return"]
    full_paths = 0
    for r in rets:
        v = r.value
        sf = [e for e in r.trace if e[0] == "call" and e[1].endswith("serialize_field")]
        keys = {}
        for e in sf:
            k = argv(e)[1]
            keys[k[1] if isinstance(k, tuple) and k[0] == "str" else short(k)] = argv(e)[2]
        if calls_named(r, "::end") and all(r.facts.variant.get(e[3]) != "Err" for e in sf):
            full_paths += 1
            chk.require(set(keys) == set(sfields), "S4", sb.defp + ":all-fields", sb.span, "serialized keys %s vs struct fields %s" % (sorted(keys), sorted(sfields)), describe_path(r))
            for k, val in keys.items():
                fed = [s for s in subterms(val) if isinstance(s, tuple) and s[0] == "pl" and s[1] == ("obj", ("param", 1)) and s[2] and s[2][0][2] == k]
                chk.require(bool(fed), "S4", sb.defp + ":" + k, sb.span, "key %s is fed by %s, not by self.%s" % (k, short(val)[:120], k), describe_path(r))
                if k == "orders":
                    sv = short(val)
                    okfw = "rev" not in sv and "sort" not in sv and "collect" in sv
                    if not okfw:
                        okfw = _borrowing_seq_wrapper(ctx, val)
                    chk.require(okfw, "S4", sb.defp + ":orders-forward", sb.span, "orders serialized as %s" % sv[:200])
    chk.require(full_paths >= 1, "S4", sb.defp + ":analysed", sb.span, "no complete serialization path")
    closure_types = ("OrderType", "OrderId", "Side", "TimeInForce", "PegReferenceType", "PriceLevelSnapshotPackage", "PriceLevelSnapshot")
    for a in db.attrs:
        if "serde" in a["text"] and "skip" in a["text"]:
            if any(a["adt"].startswith(t) or a["owner"].startswith(t) for t in closure_types):
                chk.fail("S4", "attr:%s.%s:skip" % (a["adt"], a["owner"]), a["span"], "serde attribute %s removes data from the checksummed serialization" % a["text"])
        elif a["text"].startswith("#[serde") and re.search(r"\b(serialize_with|with|getter|into|flatten)\b\s*=|\bflatten\b", a["text"]):
            # the checksum is taken over the serialized form: it must determine the value.  A derived field serializer
            # does; a substituted one (serialize_with / with / getter / into) is a function this check cannot show injective
            if any(a["adt"].startswith(t) or a["owner"].startswith(t) for t in closure_types):
                chk.fail("S4", "attr:%s.%s:custom-serializer" % (a["adt"], a["owner"]), a["span"],
                         "serde attribute %s replaces the derived serializer of a field inside the checksummed content: two different values may hash alike (the checksum no longer determines the field)" % a["text"], undecided=True)
    # ---------------- S5
    vs, vm_found = db.serde_visitors("PriceLevelSnapshot")
    chk.require(len(vs) == 1, "S5", "snapshot-field-visitor", "", "field visitor not found (%d)" % len(vs))
    if vs:
        w = ctx.walker(max_depth=3)
        oks, errs = 0, 0
        for r in w.walk(vs[0]):
            if r.kind != "return":
                continue
            v = r.value
            if isinstance(v, tuple) and v[0] == "agg" and v[2] == "Ok":
                oks += 1
                lits = [a for a, p in r.facts.order if p is True and ("str" in repr(a))]
                chk.require(bool(lits), "S5", vs[0].defp + ":ok-needs-known-key", vs[0].span, "a key is accepted without matching a literal", describe_path(r))
            else:
                errs += 1
                chk.require("unknown_field" in repr(v), "S5", vs[0].defp + ":unknown-rejected", vs[0].span, "the default arm returns %s" % short(v)[:120], describe_path(r))
        chk.require(oks == len(sfields) and errs >= 1, "S5", vs[0].defp + ":arms", vs[0].span, "%d accepting arms for %d fields, %d rejecting" % (oks, len(sfields), errs))
    vm = vm_found
    chk.require(len(vm) == 1, "S5", "snapshot-visitor", "", "visit_map not found (%d)" % len(vm))
    if vm:
        w = ctx.walker(max_depth=2)
        res = w.walk(vm[0])
        dup = set()
        miss = set()
        filtered = []
        for r in res:
            if r.kind == "return":
                s = repr(r.value)
                for f in sfields:
                    if "duplicate_field" in s and "'%s'" % f in s:
                        dup.add(f)
                    if "missing_field" in s and "'%s'" % f in s:
                        miss.add(f)
                v = r.value
                if isinstance(v, tuple) and v[0] == "agg" and v[2] == "Ok":
                    inner = dict(v[3])["0"]
                    if isinstance(inner, tuple) and inner[0] == "agg":
                        od = dict(inner[3]).get("orders")
                        so = short(od)
                        filtered.append(so)
            for e in r.trace:
                if e[0] == "call" and any(x in e[1] for x in ("::filter", "::skip", "::take", "::rev", "dedup", "retain", "truncate", "sort")):
                    chk.fail("S5", vm[0].defp + ":orders-altered", e[5], "the decoded order list is altered by %s" % e[1], describe_path(r))
        chk.require(dup == set(sfields), "S5", vm[0].defp + ":duplicates-rejected", vm[0].span, "duplicate_field errors for %s only" % sorted(dup))
        scal = set(sfields) - {"orders"}
        chk.require(scal <= miss, "S5", vm[0].defp + ":missing-rejected", vm[0].span, "missing_field errors for %s only" % sorted(miss))
    fj = db.method(PKG, "from_json")
    ext = cg.external.get(fj.defp, set())
    chk.require(any(x.endswith("serde_json::from_str") or x.endswith("serde_json::de::from_str") for x in ext), "S5", fj.defp, fj.span,
                "from_json does not parse with serde_json::from_str (whole-input): %s" % sorted(x for x in ext if "serde_json" in x))
    # ---------------- S6
    b, res = walk(PKG, "new", ["refresh_aggregates", "compute_checksum"])
    for r in res:
        if r.kind != "return":
            continue
        v = r.value
        if not (isinstance(v, tuple) and v[0] == "agg" and v[2] == "Ok"):
            continue
        inner = dict(v[3])["0"]
        fd = dict(inner[3]) if isinstance(inner, tuple) and inner[0] == "agg" else {}
        cc = calls_named(r, "compute_checksum")
        okc = len(cc) == 1 and fd.get("checksum") == ("field", cc[0][3], "Ok", "0")
        chk.require(okc, "S6", b.defp + ":checksum-of", b.span, "stored checksum is %s" % short(fd.get("checksum"))[:120], describe_path(r))
        if okc:
            a = argv(cc[0])[0]
            hashed = a[1] if isinstance(a, tuple) and a[0] == "refval" else a
            chk.require(hashed == fd.get("snapshot"), "S6", b.defp + ":same-value", b.span,
                        "the checksum is computed over %s but the stored snapshot is %s (mutated after hashing?)" % (short(hashed)[:120], short(fd.get("snapshot"))[:120]), describe_path(r))
        chk.require(fd.get("version") == VER, "S6", b.defp + ":version", b.span, "stored version is %s" % short(fd.get("version")))


def _places_of_rv(rv):
    k = rv["k"]
    out = []

    def op(o):
        if o.get("k") in ("copy", "move"):
            out.append(o["place"])
    if k in ("use", "cast", "repeat"):
        op(rv["op"])
    elif k == "bin":
        op(rv["a"])
        op(rv["b"])
    elif k == "un":
        op(rv["a"])
    elif k == "agg":
        for o in rv["ops"]:
            op(o)
    elif k in ("ref", "rawptr", "discr"):
        out.append(rv["place"])
    return out
