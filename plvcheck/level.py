"""Shared analysis of the PriceLevel mutators (add_order, match_order, update_order):
path summaries with counter deltas, queue deltas and the other effect events the C01/C02/C03/
C06/C07/C12/C13/C15 rules look at."""
import re
from .effects import make_effect_fn, classify
from .terms import Affine, affine, prove_zero, short, Int, is_int, subterms
from .db import AnchorError
from .common import describe_path

SELF = ("obj", ("param", 1))
LEVEL_CLASSES = {"ATOMIC", "Q", "STAT", "GEN", "TX", "RES", "MAP", "TICKET", "NONDET"}

MUTATORS = ["add_order", "match_order", "update_order"]
# queue methods the level rules summarise as primitive effects; any other OrderQueue method is inlined down to the
# map / ticket operations it performs
KNOWN_Q = {"push", "pop", "remove", "find", "to_vec", "len", "is_empty", "new", "from_vec", "from", "default", "fmt", "clone"}


def entry_of(h):
    """the place behind a DashMap RefMut handle h (payload of MAP.get_mut)"""
    return ("obj", ("entry", h))


def _handle(walker, st, a):
    """the RefMut value behind `&handle` / `&mut handle`"""
    if isinstance(a, tuple) and a[0] == "ref":
        return walker._read(st, a[1])
    if isinstance(a, tuple) and a[0] == "refval":
        return a[1]
    return a


def entry_model(cn, callee, args, st, walker):
    """DashMap's locked-entry protocol: `let mut e = map.get_mut(&k)?; .. e.value() .. *e.value_mut() = v` (also through
    Deref/DerefMut/pair/pair_mut).  The entry is an abstract place; reading it before any store yields the symbolic
    current value, a store is recorded by entry_write as MAP.entry_store."""
    if "dashmap::mapref::one::RefMut" not in cn and "dashmap::mapref::one::Ref" not in cn:
        return None
    name = callee["name"]
    if not args:
        return None
    h = _handle(walker, st, args[0])
    if name in ("value", "deref"):
        return ("val", ("ref", ("pl", entry_of(h), ()), False))
    if name in ("value_mut", "deref_mut"):
        return ("val", ("ref", ("pl", entry_of(h), ()), True))
    if name == "key":
        return None
    return None


ENTRY_VPROJ = [None]     # name of the field of the map's value struct that holds the order (None: the value is the order)


def entry_write(st, pl, val, walker):
    root = pl[1]
    whole = not pl[2] and ENTRY_VPROJ[0] is None
    inner = ENTRY_VPROJ[0] is not None and len(pl[2]) == 1 and pl[2][0][0] == "f" and pl[2][0][2] == ENTRY_VPROJ[0]
    if ENTRY_VPROJ[0] is not None and not pl[2] and isinstance(val, tuple) and val[0] == "agg":
        # the whole wrapper replaced: the order inside it is what is published
        val = dict(val[3]).get(ENTRY_VPROJ[0])
        inner = val is not None
    if root[0] == "obj" and isinstance(root[1], tuple) and root[1] and root[1][0] == "entry" and (whole or inner):
        fr = st.frame
        site = fr.site + ((fr.body.defp, st.bb),)
        ev = ("eff", "MAP.entry_store", (root[1][1], val), ("eff", "MAP.entry_store", walker._site_str(site)), site, "", None, (root[1][1], val))
        st.trace.append(ev)


class LevelAnalysis:
    def __init__(self, ctx):
        self.ctx = ctx
        self.db = ctx.db
        self.R = ctx.roles
        self.level_adt = self.db.adt("price_level::level::PriceLevel")
        self.field_tys = {f["name"]: f["ty"] for f in self.level_adt["variants"][0]["fields"]}
        self.counter_role = {}   # field name -> 'visible'|'hidden'|'count'
        for role, acc in (("visible", "visible_quantity"), ("hidden", "hidden_quantity"), ("count", "order_count")):
            self.counter_role[self._accessor_field(acc)] = role
        if len(self.counter_role) != 3:
            raise AnchorError("the three aggregate accessors do not read three distinct fields")
        self.queue_field = self._field_of_type("OrderQueue")
        from .queue import QueueAnalysis
        try:
            self.vproj = QueueAnalysis(ctx).vproj
        except AnchorError:
            self.vproj = None    # the queue's shape is the queue rules' business; the level rules only use its interface
        ENTRY_VPROJ[0] = self.vproj
        self.stats_field = self._field_of_type("PriceLevelStatistics")
        self.price_field = self._price_field()
        self._cache = {}
        self.root = SELF

    def for_root(self, root):
        """the same analysis seen from another PriceLevel value the walked function acts on (a parameter
        `other: &PriceLevel`): counter / queue / statistics events are those whose receiver is a field of `root`.
        Paths and mutator discovery are shared; root-dependent summaries are keyed by the root."""
        if root == self.root:
            return self
        import copy
        v = copy.copy(self)
        v.root = root
        return v

    def views(self, name):
        """[(view, key suffix)]: the level the function is called on, then every other PriceLevel value it acts on"""
        out = [(self, "")]
        if self.root == SELF:
            for root in self.other_level_roots(name):
                out.append((self.for_root(root), "@other-level(%s)" % short(root)))
        return out

    def other_level_roots(self, name):
        """roots (other than self) of PriceLevel values whose counters / queue / statistics the function `name` touches"""
        key = ("roots", name)
        if key in self._cache:
            return self._cache[key]
        b, res, _ = self.paths(name)
        fields = set(self.counter_role) | {self.queue_field, self.stats_field}
        roots = []
        for r in res:
            for e in r.trace:
                if e[0] != "eff" or not e[2]:
                    continue
                if e[1].split(".", 1)[0] not in ("Q", "ATOMIC", "STAT", "MAP", "TICKET") or e[1] in ("ATOMIC.load", "ATOMIC.new"):
                    continue
                ref = e[2][0]
                if isinstance(ref, tuple) and ref[0] == "ref":
                    _, root, path = ref[1]
                    if root != SELF and root[0] == "obj" and path and path[0][0] == "f" and path[0][2] in fields and root not in roots:
                        roots.append(root)
        self._cache[key] = roots
        return roots

    # ---- slots filled from the repository
    def _accessor_field(self, name):
        b = self.db.method("PriceLevel", name)
        w = self.walker(max_depth=1)
        res = [r for r in w.walk(b) if r.kind == "return"]
        fields = set()
        for r in res:
            loads = [e for e in r.events("eff") if e[1] == "ATOMIC.load"]
            if len(loads) != 1 or r.value != loads[0][3]:
                raise AnchorError("PriceLevel::%s is not a single atomic load returned as is" % name)
            fields.add(self.self_field(loads[0][2][0]))
        if len(fields) != 1 or None in fields:
            raise AnchorError("PriceLevel::%s does not load one field of self" % name)
        return fields.pop()

    def _field_of_type(self, suffix):
        c = [n for n, t in self.field_tys.items() if suffix in t]
        if len(c) != 1:
            raise AnchorError("PriceLevel: expected one field of type %s, found %s" % (suffix, c))
        return c[0]

    def _price_field(self):
        b = self.db.method("PriceLevel", "price")
        w = self.walker(max_depth=1)
        res = [r for r in w.walk(b) if r.kind == "return"]
        if len(res) != 1:
            raise AnchorError("PriceLevel::price has %d paths" % len(res))
        t = res[0].value
        if isinstance(t, tuple) and t[0] == "field" and t[1] == ("val", SELF):
            return t[3]
        raise AnchorError("PriceLevel::price does not return a field of self")

    def self_field(self, ref):
        """field name when `ref` is &self.<field> (possibly through Arc deref), else None; `self` is the level this view
        follows (the receiver of the walked function unless for_root() chose another one)"""
        if isinstance(ref, tuple) and ref[0] == "ref":
            _, root, path = ref[1]
            if root == getattr(self, "root", SELF) and len(path) >= 1 and path[0][0] == "f":
                return path[0][2]
        return None

    def walker(self, **kw):
        w = self.ctx.walker(**kw)

        def eff(callee, args, st, walker):
            c = classify(callee)
            if c is None or c[0] not in LEVEL_CLASSES:
                return None
            if c[0] == "Q" and c[1] not in KNOWN_Q:
                return None     # a queue method the level rules have no summary for: analysed through its body
            return "%s.%s" % c
        w.effect_of = eff
        w.custom_model = entry_model
        w.on_heap_write = entry_write
        return w

    # ---- walking the mutators
    def mutators(self):
        """the three documented mutators plus every other crate function that takes the level as its first parameter
        and, on some path, writes an aggregate counter or pushes/takes an order (a new `cancel_all`, `clear`, ...):
        discovered from the MIR on every run, analysed by the same rules (keyed by def path)"""
        if "__mutators__" in self._cache:
            return self._cache["__mutators__"]
        out = list(MUTATORS)
        known = {self.db.method("PriceLevel", n).defp for n in MUTATORS}
        # helpers the documented mutators call are analysed through inlining, not as entry points of their own
        helpers = set(self.ctx.cg.reach(sorted(known)))
        extra = []
        for d, b in sorted(self.db.bodies.items()):
            if b.kind == "Closure" or d in known or b.argc < 1:
                continue
            if d in helpers and getattr(b, "vis", None) != "pub":
                continue    # a private helper: only reachable with the arguments its callers pass, analysed inline
            ty = b.locals[1]["ty"].replace("&mut ", "").lstrip("&").strip()
            ty = re.sub(r"^'[a-z_]+ ", "", ty)
            if not (ty == self.level_adt["def"] or ty.endswith("::PriceLevel") or ty == "PriceLevel" or ty == "Self" and "PriceLevel" in (b.impl_self or "")):
                continue
            try:
                w = self.walker()
                res = w.walk(b)
            except Exception:
                extra.append(d)
                continue
            writes = False
            for r in res:
                if any(op != "load" for _, op, _, _ in self.counter_events(r.trace)):
                    writes = True
                for e in r.trace:
                    if e[0] == "eff" and e[1] in ("Q.push", "Q.pop", "Q.remove") and e[2] and self.self_field(e[2][0]) == self.queue_field:
                        writes = True
                if writes:
                    break
            if writes:
                self._cache[d] = (b, res, w.stats)
                extra.append(d)
        self._cache["__mutators__"] = out + extra
        return self._cache["__mutators__"]

    def paths(self, name):
        if name not in self._cache:
            b = self.db.bodies[name] if "::" in name else self.db.method("PriceLevel", name)
            w = self.walker()
            res = [r for r in w.walk(b) if not self.contradicts_map_invariant(r)]
            self._cache[name] = (b, res, w.stats)
        return self._cache[name]

    def contradicts_map_invariant(self, r):
        """the id map stores every order under its own id (push inserts under order.id(), an in-place update keeps the
        id: rules P1/Q1 and the in-place same-id rule).  A path that assumes `entry.id != key` for the entry it has just
        locked with get_mut(key) is infeasible (it is the defensive id guard of an in-place primitive)."""
        for e in r.trace:
            if e[0] == "eff" and e[1] == "MAP.get_mut" and r.facts.variant.get(e[3]) == "Some" and len(e) > 7 and len(e[7]) > 1:
                key = e[7][1]
                while isinstance(key, tuple) and key and key[0] == "refval":
                    key = key[1]
                cur = ("val", entry_of(("field", e[3], "Some", "0")))
                if self.vproj is not None:
                    cur = ("field", cur, None, self.vproj)
                for atom, pol in r.facts.order:
                    if atom[0] == "eq" and pol is False:
                        for x, y in ((atom[1], atom[2]), (atom[2], atom[1])):
                            if y == key and isinstance(x, tuple) and x[0] == "field" and x[1] == cur and x[3] in set(self.R.id_field.values()):
                                return True
        return False

    # ---- event views
    def counter_events(self, trace):
        """[(role, op, operand, event)] for atomics on the three aggregate fields"""
        out = []
        for e in trace:
            if e[0] != "eff" or not e[1].startswith("ATOMIC."):
                continue
            f = self.self_field(e[2][0]) if e[2] else None
            if f in self.counter_role:
                op = e[1].split(".", 1)[1]
                operand = e[2][1] if len(e[2]) > 1 and op not in ("load",) else None
                out.append((self.counter_role[f], op, operand, e))
        return out

    def queue_events(self, trace, facts):
        """ordered [(kind, order_term, event)] with kind in push/take/miss/find/list/park/other"""
        out = []
        for e in trace:
            if e[0] == "eff" and e[1].startswith("Q."):
                if not e[2] or self.self_field(e[2][0]) != self.queue_field:
                    continue
                m = e[1][2:]
                res = e[3]
                if m == "push":
                    out.append(("push", e[2][1], e))
                elif m in ("pop", "remove"):
                    v = facts.variant.get(res)
                    if v == "Some":
                        out.append(("take", ("field", res, "Some", "0"), e))
                    elif v == "None":
                        out.append(("miss", None, e))
                    else:
                        out.append(("take?", ("field", res, "Some", "0"), e))
                elif m == "find":
                    out.append(("find", ("field", res, "Some", "0"), e))
                elif m in ("to_vec", "len", "is_empty"):
                    out.append(("list", None, e))
                else:
                    out.append(("other", None, e))
            elif e[0] == "eff" and e[1] == "MAP.get_mut" and e[2] and self.self_field(e[2][0]) == self.queue_field:
                # locked entry of the id map (an in-place update primitive of the queue, inlined): the current value is
                # owned by this thread until the handle is dropped
                res = e[3]
                v = facts.variant.get(res)
                h = ("field", res, "Some", "0")
                cur = ("val", entry_of(h))
                if self.vproj is not None:
                    cur = ("field", cur, None, self.vproj)
                if v == "Some":
                    out.append(("rtake", cur, e))
                elif v == "None":
                    out.append(("miss", None, e))
                else:
                    out.append(("take?", cur, e))
            elif e[0] == "eff" and e[1] == "MAP.entry_store":
                out.append(("rpush", e[2][1], e))
            elif e[0] == "eff" and e[1] in ("MAP.contains_key", "MAP.get") and e[2] and self.self_field(e[2][0]) == self.queue_field:
                # a presence test / read-only lookup through a queue method the level rules have no summary for
                res = e[3]
                hit = facts.decide(res) if e[1] == "MAP.contains_key" else {"Some": True, "None": False}.get(facts.variant.get(res))
                if hit is False:
                    out.append(("miss", None, e))
                else:
                    out.append(("find", ("field", res, "Some", "0"), e))
            elif e[0] == "eff" and (e[1].startswith("MAP.") or e[1].startswith("TICKET.")) and e[2] and self.self_field(e[2][0]) == self.queue_field:
                m = e[1].split(".", 1)[1]
                if m not in ("get", "len", "is_empty", "iter", "contains_key", "new"):
                    out.append(("raw", None, e))
            elif e[0] == "call" and e[1] in ("std::vec::Vec::push", "alloc::vec::Vec::push", "std::collections::VecDeque::push_back"):
                # parking an order in a local container
                a = e[2]
                if len(a) == 2 and self.is_order_term(a[1], facts) and container_local(a[0]) is not None:
                    # parked only if the function drains that container again (set_aside); a container that is never
                    # drained is a result being collected (`cancelled.push(order)`): the order leaves the book
                    if self.container_drained(e[4][-1][0], container_local(a[0])[1]) and self.container_requeued(e[4][-1][0], container_local(a[0])[1]):
                        out.append(("park", a[1], e))
                    else:
                        out.append(("handout", a[1], e))
            elif e[0] == "call" and e[1] in ("std::vec::Vec::pop", "std::collections::VecDeque::pop_front", "std::collections::VecDeque::pop_back"):
                # draining a parked container with `while let Some(o) = set_aside.pop()`
                res = e[3]
                if facts.variant.get(res) == "Some" and e[2] and container_local(e[2][0]) is not None and len(e[4]) == 1 \
                        and self.container_requeued(e[4][-1][0], container_local(e[2][0])[1]):
                    out.append(("unpark", ("field", res, "Some", "0"), e))
            elif e[0] == "call" and e[1].endswith("::next") and "Iterator" in e[1]:
                # draining a parked container: `for o in set_aside { .. }`
                res = e[3]
                if facts.variant.get(res) == "Some":
                    src = self.iter_source(trace, e)
                    # only the walked function's own containers: a vector handed by value to a callee that iterates it
                    # (`OrderQueue::from(removed)`) has left this function's hands
                    if src is not None and len(e[4]) == 1 and self.container_requeued(e[4][-1][0], src[1]):
                        out.append(("unpark", ("field", res, "Some", "0"), e))
        return out

    def iter_source(self, trace, next_event):
        """container local (frame, idx) when `next_event` iterates `into_iter(<local container>)`, else None"""
        it = next_event[2][0] if next_event[2] else None
        if isinstance(it, tuple) and it[0] == "call" and it[1].endswith("into_iter"):
            # internal iteration (for_each): the iterator term is passed directly
            for s in subterms(it):
                if isinstance(s, tuple) and s[0] == "havoc" and len(s) == 3 and isinstance(s[2], int):
                    return ("local", s[2])
            return None
        if not (isinstance(it, tuple) and it[0] == "ref" and it[1][1][0] == "local"):
            return None
        li = it[1][1][2]
        # the iterator's value before its loop is recorded in the enclosing loop marker
        pre = None
        for ev in trace:
            if ev is next_event:
                break
            if ev[0] == "loop" and li in ev[2]:
                pre = ev[2][li]
        if pre is None:
            return None
        if not (isinstance(pre, tuple) and pre[0] == "call" and pre[1].endswith("into_iter")):
            return None
        for s in subterms(pre):
            if isinstance(s, tuple) and s[0] == "havoc" and len(s) == 3 and isinstance(s[2], int):
                return ("local", s[2])
        return None

    DRAIN_NAMES = {"into_iter", "pop", "drain", "pop_front", "pop_back", "remove", "swap_remove", "iter", "iter_mut", "append", "extend", "retain"}

    def container_drained(self, defp, local):
        """does the body `defp` ever read orders back out of its local container `local` (iterate / pop / drain it)?"""
        key = ("drained", defp, local)
        if key in self._cache:
            return self._cache[key]
        b = self.db.bodies.get(defp)
        res = True     # unknown body: keep the conservative reading (parked)
        if b is not None:
            # locals that alias the container: the container itself and references / moves of it
            alias = {local}
            changed = True
            while changed:
                changed = False
                for blk in b.blocks:
                    for st in blk["stmts"]:
                        if st["k"] != "assign" or st["place"]["p"]:
                            continue
                        rv = st["rv"]
                        src = None
                        if rv["k"] in ("ref", "rawptr") and not [x for x in rv["place"]["p"] if x["k"] != "deref"]:
                            src = rv["place"]["l"]
                        elif rv["k"] in ("use", "cast") and isinstance(rv.get("op"), dict) and rv["op"].get("k") in ("copy", "move") and not rv["op"]["place"]["p"]:
                            src = rv["op"]["place"]["l"]
                        if src in alias and st["place"]["l"] not in alias and st["place"]["l"] != 0:
                            alias.add(st["place"]["l"])
                            changed = True
            res = False
            for bb, t in b.calls():
                c = t["callee"]
                if not c or c["name"] not in self.DRAIN_NAMES:
                    continue
                for a in t["args"] or []:
                    if a.get("k") in ("copy", "move") and not [x for x in a["place"]["p"] if x["k"] != "deref"] and a["place"]["l"] in alias:
                        res = True
        self._cache[key] = res
        return res

    def container_requeued(self, defp, local):
        """are the orders read back out of the local container pushed onto *this* level's queue again (match_order's
        set_aside), or do they go elsewhere (`drain_into(other)`: handed to another level, i.e. they leave this book)?
        Decided on the paths of `defp`: some path takes an element out of the container and pushes that element on
        self's queue.  Unknown / no read-back seen: the conservative reading (parked, still counted)."""
        key = ("requeued", defp, local, self.root)
        if key in self._cache:
            return self._cache[key]
        self._cache[key] = True         # while computing (paths() does not use queue events) and as the default
        if defp not in self.db.bodies:
            return True
        try:
            b, paths, _ = self.paths(defp)
        except Exception:
            return True
        found = seen = False
        pops = ("std::vec::Vec::pop", "std::collections::VecDeque::pop_front", "std::collections::VecDeque::pop_back")
        # the container holds orders of *this* level only if something taken from this level's queue is put into it
        from_here = False
        any_park = False
        for r in paths:
            taken = [e[3] for e in r.trace if e[0] == "eff" and e[1] in ("Q.pop", "Q.remove") and e[2] and self.self_field(e[2][0]) == self.queue_field]
            for e in r.trace:
                if e[0] == "call" and e[1] in ("std::vec::Vec::push", "alloc::vec::Vec::push", "std::collections::VecDeque::push_back") \
                        and len(e[2]) == 2 and container_local(e[2][0]) == (0, local):
                    any_park = True
                    if any(x == t for t in taken for x in subterms(e[2][1])):
                        from_here = True
        if any_park and not from_here:
            self._cache[key] = False
            return False
        for r in paths:
            for i, e in enumerate(r.trace):
                if e[0] != "call" or r.facts.variant.get(e[3]) != "Some":
                    continue
                un = False
                if e[1] in pops and e[2] and container_local(e[2][0]) == (0, local):
                    un = True
                elif e[1].endswith("::next") and "Iterator" in e[1] and self.iter_source(r.trace, e) == ("local", local):
                    un = True
                if not un:
                    continue
                seen = True
                elem = ("field", e[3], "Some", "0")
                for e2 in r.trace[i + 1:]:
                    if e2[0] == "eff" and e2[1] == "Q.push" and e2[2] and self.self_field(e2[2][0]) == self.queue_field \
                            and any(x == elem for x in subterms(e2[2][1])):
                        found = True
        res = found or not seen
        self._cache[key] = res
        return res

    def is_order_term(self, t, facts):
        if isinstance(t, tuple) and t[0] == "agg" and isinstance(t[1], str) and t[1].endswith("OrderType"):
            return True
        if t in facts.variant and facts.variant[t] in self.R.variants:
            return True
        if isinstance(t, tuple) and t[0] == "upd" and self.R.view(t, facts)[0] is not None:
            return True
        if isinstance(t, tuple) and t[0] == "field" and t[2] == "Some" and isinstance(t[1], tuple) and t[1][0] in ("eff", "call"):
            return True
        return False

    def deltas(self, trace, facts, lo=0, hi=None):
        """affine counter deltas and queue contribution sums for a trace segment.
        Returns dict with dV,dH,dN (Affine, from AGG.add/sub), qV,qH,qN (Affine, from queue events),
        plus lists."""
        d = {"visible": Affine(), "hidden": Affine(), "count": Affine()}
        other = []
        hi = len(trace) if hi is None else hi
        inseg = set(id(e) for e in trace[lo:hi])
        cev = [c for c in self.counter_events(trace) if id(c[3]) in inseg]
        for role, op, operand, e in cev:
            if op == "fetch_add":
                d[role] = d[role].add(affine(operand))
            elif op == "fetch_sub":
                d[role] = d[role].add(affine(operand), -1)
            elif op == "load":
                pass
            else:
                other.append((role, op, e))
        q = {"visible": Affine(), "hidden": Affine(), "count": Affine()}
        qev = [x for x in self.queue_events(trace, facts) if id(x[2]) in inseg]
        for kind, o, e in qev:
            sign = 0
            if kind in ("push", "park", "rpush"):
                sign = 1
            elif kind in ("take", "unpark", "rtake"):
                sign = -1
            if sign:
                q["visible"] = q["visible"].add(affine(self.R.role(o, facts, "display")), sign)
                q["hidden"] = q["hidden"].add(affine(self.R.role(o, facts, "reserve")), sign)
                q["count"] = q["count"].add(Affine(k=1), sign)
        return d, q, cev, qev, other


class View:
    """a path result seen through a term substitution (same interface as PathResult for the rules)"""

    def __init__(self, r, trace, facts, value=None):
        self.kind = r.kind
        self.value = r.value if value is None else value
        self.detail = r.detail
        self.flags = r.flags
        self.state = r.state
        self.trace = trace
        self.facts = facts

    def events(self, kind=None, name=None):
        for e in self.trace:
            if kind is not None and e[0] != kind:
                continue
            if name is not None and e[1] != name:
                continue
            yield e


def seq_view(L, r):
    """Single-threaded aliasing (C01/C02/C07, not C03): the payload of `Q.find(id)` and the payload of a later
    `Q.remove(id)` / `Q.find(id)` with the same id term and no queue mutation in between denote the same order.
    Returns a View with the later payload substituted for the earlier one, or None when the path is infeasible
    sequentially (one lookup hits and the other misses, or they disagree on the variant)."""
    from .terms import subst, Facts
    pending = {}   # id term -> result term of the last find
    pairs = []
    for e in r.trace:
        if e[0] != "eff" or not e[1].startswith("Q."):
            continue
        if not e[2] or L.self_field(e[2][0]) != L.queue_field:
            continue
        m = e[1][2:]
        if m == "find":
            idt = e[2][1]
            if idt in pending:
                pairs.append((pending[idt], e[3]))
            pending[idt] = e[3]
        elif m == "remove":
            idt = e[2][1]
            if idt in pending:
                pairs.append((pending[idt], e[3]))
            pending = {}
        elif m in ("push", "pop"):
            pending = {}
    if not pairs:
        return r
    trace, facts = r.trace, r.facts
    value = r.value
    for old, new in pairs:
        value = subst(value, old, new) if isinstance(value, tuple) else value
        vo, vn = facts.variant.get(old), facts.variant.get(new)
        if vo is not None and vn is not None and vo != vn:
            return None
        po, pn = ("field", old, "Some", "0"), ("field", new, "Some", "0")
        if facts.variant.get(po) is not None and facts.variant.get(pn) is not None and facts.variant[po] != facts.variant[pn]:
            return None
        trace = [subst(e, old, new) if e[0] != "loop" else e for e in trace]
        f2 = Facts()
        for atom, pol in facts.order:
            a2 = subst(atom, old, new)
            if a2[0] == "variant":
                if not f2.assume_variant(a2[1], a2[2]):
                    return None
            else:
                if a2[0] == "eq":
                    x, y = sorted((a2[1], a2[2]), key=repr)
                    a2 = ("eq", x, y)
                d = f2.decide_atom(a2)
                if d is not None and d != pol:
                    return None
                if d is None:
                    f2.atoms[a2] = pol
                    f2.order.append((a2, pol))
        facts = f2
    return View(r, trace, facts, value)


def container_local(ref):
    """(frame, local) of a `&mut <local>` argument, else None"""
    if isinstance(ref, tuple) and ref[0] == "ref" and ref[1][1][0] == "local" and not ref[1][2]:
        return (ref[1][1][1], ref[1][1][2])
    return None


def mentions_eff(t, names):
    for s in subterms(t):
        if isinstance(s, tuple) and len(s) >= 3 and s[0] == "eff" and s[1] in names:
            return s
    return None
