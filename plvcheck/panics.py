"""E4 - panic-site inventory and discharge for the parser entry points (C18).

Inventory: every panic-capable site (MIR Assert terminators, indexing of str/slice/Vec/HashMap, unwrap/expect/
panic!, arithmetic helpers that panic) in the call-graph closure of the parser entries.
Discharge: each site must match one NAMED rule, evaluated on every walked path that reaches it, using only the
facts established before the site on that path plus inductive loop invariants found by a Houdini-style
candidate elimination (candidates: cursor-is-a-char-boundary B(h,s), monotone lower bounds GE(h,T), and
ASCII-bracketed-substring BR(h)).  No solver; fixed inference rules over terms.
"""
from .terms import Facts, Int, is_int, short, subterms, affine, Affine, linsys_from_facts, unsign
from .walk import Walker, cname, Budget
from .effects import CallGraph

PANICKY_NAMES = {
    "unwrap", "expect", "unwrap_err", "expect_err", "unwrap_unchecked", "index", "index_mut", "split_at", "split_at_mut",
    "swap_remove", "copy_from_slice", "clone_from_slice", "sum", "product", "pow", "abs", "neg", "div", "rem",
    "div_euclid", "rem_euclid", "step_by", "chunks", "chunks_exact", "windows", "repeat", "borrow_mut",
    "from_digit", "to_digit", "panic", "panic_fmt", "panic_display", "unreachable", "unreachable_display",
    "assert_failed", "begin_panic", "unimplemented", "todo", "exit", "abort", "remove", "insert", "drain",
    "split_off", "truncate_unchecked", "set_len", "swap", "rotate_left", "rotate_right", "last_mut_unchecked", "nth_unchecked",
    "duration_since_unchecked", "disable_recursion_limit",
    # allocation sized by a runtime value: `capacity overflow` panic / allocation failure abort
    "with_capacity", "reserve", "reserve_exact", "resize", "resize_with", "from_elem", "with_capacity_and_hasher",
}
# container methods in PANICKY_NAMES that are total on the types used here
TOTAL_ON = {
    ("insert", "std::collections::HashMap"), ("remove", "std::collections::HashMap"), ("insert", "dashmap::DashMap"),
    ("remove", "dashmap::DashMap"), ("insert", "std::collections::HashSet"), ("remove", "std::collections::HashSet"),
    ("insert", "std::collections::BTreeMap"), ("remove", "std::collections::BTreeMap"),
}
# external callees reachable from the parsers that are trusted to be total (Z5); anything external that is
# neither here nor panicky is reported as `unknown-external`
TRUSTED_TOTAL_PREFIXES = (
    "core::str::", "std::str::", "str::", "std::string::String::", "std::vec::Vec::", "std::collections::HashMap::",
    "std::collections::HashSet::", "std::collections::BTreeMap::", "std::collections::BTreeSet::", "std::collections::VecDeque::",
    "std::collections::hash_map::", "std::collections::hash_set::", "std::collections::btree_map::", "std::collections::btree_set::", "std::collections::vec_deque::",
    "std::option::Option::", "std::result::Result::", "std::iter::Iterator::", "std::fmt::", "core::fmt::",
    "std::hint::", "std::sync::Arc::", "std::sync::atomic::Atomic::", "std::cmp::", "std::default::Default::default",
    "std::slice::", "core::slice::", "std::ops::RangeInclusive::new", "std::borrow::", "std::convert::", "std::clone::",
    "uuid::", "ulid::", "serde_json::", "dashmap::", "crossbeam::", "sha2::", "std::time::", "std::mem::", "std::ops::",
    "<", "serde::", "std::boxed::Box::", "std::rc::", "std::char::", "core::char::",
    "std::array::", "core::array::", "std::iter::", "core::iter::", "core::bool::", "std::bool::",
    "std::alloc::", "alloc::", "std::num::", "core::num::", "std::marker::", "std::any::", "tracing", "std::ptr::", "core::ptr::", "std::intrinsics::",
)


def lit_of(t):
    """string literal behind reference/deref wrappers, or None"""
    seen = 0
    while isinstance(t, tuple) and seen < 6:
        seen += 1
        if t[0] == "str":
            return t[1]
        if t[0] in ("ref", "refval"):
            t = t[1]
        elif t[0] == "pl" and not t[2] and t[1][0] == "obj" and isinstance(t[1][1], tuple) and t[1][1][0] == "deref":
            t = t[1][1][1]
        elif t[0] == "val" and t[1][0] == "obj" and isinstance(t[1][1], tuple) and t[1][1][0] == "deref":
            t = t[1][1][1]
        else:
            return None
    return None


def pat_len(p):
    """byte length of a str::find / starts_with pattern (char constant or string literal), or None"""
    if is_int(p):
        c = p[1]
        if 0 <= c < 0x110000:
            return len(chr(c).encode("utf-8"))
        return None
    l = lit_of(p)
    if l is not None and l != "":
        return len(l.encode("utf-8"))
    return None


def pat_text(p):
    if is_int(p) and 0 <= p[1] < 0x110000:
        return chr(p[1])
    return lit_of(p)


def norm_str(t):
    """canonical term for a &str value (peel refval / ref-to-deref wrappers produced by reborrows)"""
    seen = 0
    while isinstance(t, tuple) and seen < 6:
        seen += 1
        if t[0] == "refval":
            t = t[1]
        elif t[0] == "ref" and t[1][0] == "pl" and not t[1][2] and t[1][1][0] == "obj" and isinstance(t[1][1][1], tuple) and t[1][1][1][0] == "deref":
            t = t[1][1][1][1]
        else:
            break
    return t


def is_str_index(e):
    return e[0] == "call" and (e[1].endswith("str::traits::index") or ("Index" in e[1] and "str" in e[1] and e[1].endswith("index")))


def is_vec_index(e):
    return e[0] == "call" and e[1].endswith("::index") and ("Vec<" in e[1] or "vec::Vec" in e[1] or "[T]" in e[1] or "slice" in e[1])


class PrefixFacts:
    """facts known when a site is reached on a path (the first n entries of the path's facts) + invariants"""

    def __init__(self, facts, n):
        f = Facts()
        for atom, pol in facts.order[:n]:
            if atom[0] == "variant":
                f.variant[atom[1]] = atom[2]
            else:
                f.atoms[atom] = pol
            f.order.append((atom, pol))
        # invariants are facts about havoc atoms, valid wherever the havoc term is in scope
        for atom, pol in facts.order[n:]:
            if atom[0] in ("B", "BR", "GE", "CI"):
                f.atoms[atom] = pol
                f.order.append((atom, pol))
        self.f = f


class Reason:
    """fixed inference rules over terms (char boundaries, orderings, length bounds)"""

    def __init__(self, facts, trace):
        self.f = facts
        self.trace = trace

    # ---- helpers
    def truth(self, t):
        return self.f.atoms.get(("truth", t))

    def starts_with_facts(self):
        for atom, pol in self.f.order:
            if atom[0] == "truth" and pol is True and isinstance(atom[1], tuple) and atom[1][0] == "call" and atom[1][1].endswith("starts_with"):
                yield norm_str(atom[1][2][0]), atom[1][2][1]

    def ends_with_facts(self):
        for atom, pol in self.f.order:
            if atom[0] == "truth" and pol is True and isinstance(atom[1], tuple) and atom[1][0] == "call" and atom[1][1].endswith("ends_with"):
                yield norm_str(atom[1][2][0]), atom[1][2][1]

    @staticmethod
    def substr(s, a):
        """the term of s[a..] if it were built"""
        return None

    @staticmethod
    def range_from_start(t):
        """(s, a) when t is the term of s[a..]"""
        t = norm_str(t)
        if isinstance(t, tuple) and t[0] == "call" and is_str_index(("call", t[1])) and len(t[2]) == 2:
            r = t[2][1]
            if isinstance(r, tuple) and r[0] == "agg" and r[1].endswith("RangeFrom"):
                return norm_str(t[2][0]), dict(r[3])["start"]
        return None

    @staticmethod
    def find_payload(t):
        """(s, pat) when t is the Some payload of s.find(pat)/rfind(pat)"""
        if isinstance(t, tuple) and t[0] == "field" and t[2] == "Some" and t[3] == "0":
            c = t[1]
            if isinstance(c, tuple) and c[0] == "call" and (c[1].endswith("str::find") or c[1].endswith("str::rfind")) and len(c[2]) == 2:
                return norm_str(c[2][0]), c[2][1]
        return None

    def ascii_byte_at(self, s, a):
        """is s.as_bytes()[a] known to equal an ASCII constant?"""
        for atom, pol in self.f.order:
            if atom[0] == "eq" and pol is True:
                for x, y in ((atom[1], atom[2]), (atom[2], atom[1])):
                    if is_int(y) and 0 <= y[1] < 128 and isinstance(x, tuple) and x[0] == "index" and x[2] == a:
                        if any(isinstance(z, tuple) and z[0] == "call" and z[1].endswith("as_bytes") and norm_str(z[2][0]) == s for z in subterms(x[1])):
                            return True
        return False

    def match_len_at(self, s, a):
        """length of a pattern known to occur in s at offset a, else None"""
        # s[a..].starts_with(p)
        for st, p in self.starts_with_facts():
            rf = self.range_from_start(st)
            if rf is not None and rf[0] == s and rf[1] == a:
                k = pat_len(p)
                if k:
                    return k
            if st == s and a == Int(0):
                k = pat_len(p)
                if k:
                    return k
        if self.ascii_byte_at(s, a):
            return 1
        k = self.split_once_pos(a, s)
        if k is not None:
            return k
        # a = find payload in s
        fp = self.find_payload(a)
        if fp is not None and fp[0] == s:
            return pat_len(fp[1])
        # a = a0 + find payload in s[a0..]
        if isinstance(a, tuple) and a[0] == "bin" and a[1] == "Add":
            for x, y in ((a[2], a[3]), (a[3], a[2])):
                fp = self.find_payload(y)
                if fp is not None:
                    rf = self.range_from_start(fp[0])
                    if rf is not None and rf[0] == s and rf[1] == x:
                        return pat_len(fp[1])
        return None

    def split_once_pos(self, t, s):
        """pattern length when t = a + strlen(v) with v the first component of `s[a..].split_once(pat)` (so t is where
        the pattern starts in s), provided a is a boundary of s; else None"""
        if not (isinstance(t, tuple) and t[0] == "bin" and t[1] == "Add"):
            return None
        for a, b in ((t[2], t[3]), (t[3], t[2])):
            if isinstance(b, tuple) and b[0] == "strlen":
                v = norm_str(b[1])
                if isinstance(v, tuple) and v[0] == "val" and v[1][0] == "obj" and isinstance(v[1][1], tuple) and v[1][1][0] == "deref":
                    v = v[1][1][1]
                if isinstance(v, tuple) and v[0] == "field" and v[3] == "0" and isinstance(v[1], tuple) and v[1][0] == "field" and v[1][2] == "Some":
                    c = v[1][1]
                    if isinstance(c, tuple) and c[0] == "call" and c[1].endswith("split_once") and len(c[2]) == 2:
                        rf = self.range_from_start(c[2][0])
                        if rf is not None and rf[0] == s and rf[1] == a and self.is_B(a, s, 5)[0]:
                            return pat_len(c[2][1])
        return None

    # ---- B: char boundary (and <= len)
    def is_B(self, t, s, depth=0):
        s = norm_str(s)
        if depth > 8:
            return False, "depth"
        if t == Int(0):
            return True, "zero"
        if t == ("strlen", s) or (isinstance(t, tuple) and t[0] == "strlen" and norm_str(t[1]) == s):
            return True, "len"
        if self.f.atoms.get(("B", t, s)) is True:
            return True, "loop-invariant"
        if self.f.atoms.get(("CI", t, s)) is True:
            return True, "char-indices-invariant"
        if is_int(t):
            for st, p in self.starts_with_facts():
                if st == s and pat_len(p) == t[1]:
                    return True, "prefix-guard"
            # a literal's own length used on a string known to start with it is covered above; BR strings: 1
            if t[1] == 1 and self.bracketed(s):
                return True, "bracketed-first"
        fp = self.find_payload(t)
        if fp is not None and fp[0] == s:
            return True, "find-index"
        # a + len(prefix) where prefix is the part of s[a..] before the first occurrence of a pattern (split_once)
        sp = self.split_once_pos(t, s)
        if sp is not None:
            return True, "split-once"
        # a byte equal to an ASCII constant is always the first byte of a char: t and t+1 are boundaries
        if self.ascii_byte_at(s, t):
            return True, "ascii-byte"
        if isinstance(t, tuple) and t[0] == "bin" and t[1] == "Add":
            for a, b in ((t[2], t[3]), (t[3], t[2])):
                if b == Int(1) and self.ascii_byte_at(s, a):
                    return True, "ascii-byte+1"
        # strlen(s) - k with an ASCII suffix of length k
        if isinstance(t, tuple) and t[0] == "bin" and t[1] == "Sub" and is_int(t[3]) and isinstance(t[2], tuple) and t[2][0] == "strlen" and norm_str(t[2][1]) == s:
            for st, p in self.ends_with_facts():
                if st == s and pat_len(p) == t[3][1]:
                    return True, "suffix-guard"
            if t[3][1] == 1 and self.bracketed(s):
                return True, "bracketed-last"
        if isinstance(t, tuple) and t[0] == "bin" and t[1] == "Add":
            for a, b in ((t[2], t[3]), (t[3], t[2])):
                okA, _ = self.is_B(a, s, depth + 1)
                if not okA:
                    continue
                # a + len(match at a)
                if is_int(b) and b[1] > 0:
                    k = self.match_len_at(s, a)
                    if k is not None and k == b[1]:
                        return True, "match+len"
                    ci = self.char_yield(a, s)
                    if ci is not None and ci == b[1]:
                        return True, "char-indices+len"
                # a + boundary of the suffix s[a..]
                fp = self.find_payload(b)
                if fp is not None:
                    rf = self.range_from_start(fp[0])
                    if rf is not None and rf[0] == s and rf[1] == a:
                        return True, "suffix-offset"
        # index yielded by s.char_indices()
        if self.char_yield(t, s) is not None:
            return True, "char-indices"
        return False, "no boundary rule applies to %s" % short(t)[:120]

    def _iter_source(self, pre, s):
        """('chars'|'bytes', skip_term or None) when `pre` is char_indices(s) / bytes(s).enumerate(), possibly under
        skip(n) / take(n) / by_ref adapters"""
        skip = None
        t = pre
        for _ in range(6):
            if not (isinstance(t, tuple) and t[0] == "call"):
                return None
            nm = t[1].split("::")[-1]
            if nm in ("skip",) and len(t[2]) == 2:
                skip = t[2][1]
                t = t[2][0]
                continue
            if nm in ("take", "by_ref", "fuse", "peekable") and t[2]:
                t = t[2][0]
                continue
            if nm == "char_indices" and t[2] and norm_str(t[2][0]) == s:
                return ("chars", skip)
            if nm == "enumerate" and t[2]:
                inner = t[2][0]
                if isinstance(inner, tuple) and inner[0] == "call" and inner[1].split("::")[-1] == "bytes" and inner[2] and norm_str(inner[2][0]) == s:
                    return ("bytes", skip)
                return None
            return None
        return None

    def yield_info(self, t, s):
        """(kind, ascii_len, skip) when t is the index component yielded by an index-producing iterator over s on this
        path; ascii_len = 1 when the yielded char/byte is known equal to an ASCII constant, else 0"""
        if not (isinstance(t, tuple) and t[0] == "field" and t[3] == "0" and isinstance(t[1], tuple) and t[1][0] == "field" and t[1][2] == "Some"):
            return None
        nx = t[1][1]
        if not (isinstance(nx, tuple) and nx[0] == "call" and nx[1].endswith("next")):
            return None
        src = None
        for e in self.trace:
            if e[0] == "loop":
                for l, pre in e[2].items():
                    if not isinstance(l, int):
                        continue    # loop-carried heap field, not a local
                    if any(isinstance(z, tuple) and z and z[0] == "havoc" and len(z) == 3 and z[2] == l and z[1] == e[1] for z in subterms(nx)):
                        got = self._iter_source(pre, s)
                        if got is not None:
                            src = got
        if src is None:
            return None
        ch = ("field", t[1], None, "1")
        asc = 0
        for atom, pol in self.f.order:
            if atom[0] == "eq" and pol is True:
                for x, y in ((atom[1], atom[2]), (atom[2], atom[1])):
                    if x == ch and is_int(y) and 0 <= y[1] < 128:
                        asc = 1
        return (src[0], asc, src[1])

    def char_yield(self, t, s):
        """utf-8 length (1 for a known ASCII char, 0 unknown) when t is an index yielded by s.char_indices(); for a byte
        enumeration only an index whose byte is known ASCII counts (a continuation byte is not a boundary)"""
        yi = self.yield_info(t, s)
        if yi is None:
            return None
        kind, asc, _ = yi
        if kind == "bytes" and not asc:
            return None
        return asc

    def bracketed(self, s):
        """BR: s is known to start and end with an ASCII char and to have length >= 2"""
        s = norm_str(s)
        if self.f.atoms.get(("BR", s)) is True:
            return True
        # payload of a BR option
        if isinstance(s, tuple) and s[0] == "field" and s[2] == "Some" and self.f.atoms.get(("BR", s[1])) is True:
            return True
        return False

    # ---- orderings
    def lower(self, form, depth=8):
        """replace atoms that have a GE invariant by their lower bound where the coefficient is positive (to the given
        nesting depth: lowering a bound further can destroy a cancellation, see lower_variants)"""
        out = Affine(k=form.k)
        for a, c in form.c.items():
            lb = None
            if c > 0 and depth > 0:
                for atom, pol in self.f.order:
                    if atom[0] == "GE" and pol is True and atom[1] == a:
                        lb = atom[2]
            if lb is not None:
                out = out.add(self.lower(affine(lb), depth - 1), c)
            else:
                out = out.add(Affine({a: c}))
        return out

    def lower_variants(self, form):
        """the form lowered to increasing depths: i >= pos + 14 and pos >= 12 prove i - pos >= 14 only at depth 1"""
        seen = []
        for dpt in (1, 2, 8):
            v = self.lower(form, dpt)
            if not any(v.c == w.c and v.k == w.k for w in seen):
                seen.append(v)
        return seen

    def le(self, a, b):
        """a <= b ?"""
        if self.f.decide_atom(("lt", b, a)) is False:
            return True, "dominating fact"
        ls = linsys_from_facts(self.f)
        d = ls.reduce(affine(b).add(affine(a), -1))
        for d2 in self.lower_variants(d):
            if all(c >= 0 for c in d2.c.values()) and d2.k >= 0 and not any(_signed_atom(x) for x in d2.c):
                return True, "difference is a sum of non-negative terms"
        # integers: x < b  =>  x + 1 <= b
        if isinstance(a, tuple) and a[0] == "bin" and a[1] == "Add":
            for x, k in ((a[2], a[3]), (a[3], a[2])):
                if k == Int(1) and self.f.decide_atom(("lt", x, b)) is True:
                    return True, "strict order + 1"
                # x <= b, and x, b are the positions of two different one-character patterns in the same string
                # (`s.find('[')` / `s.rfind(']')`): they cannot coincide, so x < b
                if k == Int(1) and self.f.decide_atom(("lt", b, x)) is False:
                    fx, fb = self.find_payload(x), self.find_payload(b)
                    if fx is not None and fb is not None and fx[0] == fb[0]:
                        tx, tb = pat_text(fx[1]), pat_text(fb[1])
                        if tx is not None and tb is not None and len(tx) == 1 and len(tb) == 1 and tx != tb:
                            return True, "positions of distinct characters"
        # a string known to start / end with a literal is at least as long as the literal
        if is_int(a) and isinstance(b, tuple) and b[0] == "strlen":
            sb = norm_str(b[1])
            for st, p in list(self.starts_with_facts()) + list(self.ends_with_facts()):
                if st == sb and (pat_len(p) or 0) >= a[1]:
                    return True, "at least as long as its literal prefix/suffix"
        # prefix literal of k bytes and a 1-byte suffix pattern the literal does not end with: k <= len - 1
        if is_int(a) and isinstance(b, tuple) and b[0] == "bin" and b[1] == "Sub" and b[3] == Int(1) and isinstance(b[2], tuple) and b[2][0] == "strlen":
            s = norm_str(b[2][1])
            for st, p in self.starts_with_facts():
                if st == s and pat_len(p) == a[1]:
                    lit = pat_text(p)
                    for st2, p2 in self.ends_with_facts():
                        if st2 == s and pat_len(p2) == 1 and lit is not None and not lit.endswith(pat_text(p2)):
                            return True, "prefix/suffix disjoint"
        # bracketed: 1 <= len - 1
        if a == Int(1) and isinstance(b, tuple) and b[0] == "bin" and b[1] == "Sub" and b[3] == Int(1) and isinstance(b[2], tuple) and b[2][0] == "strlen" \
                and self.bracketed(b[2][1]):
            return True, "bracketed (len >= 2)"
        # CI: h is 0 or a previous char_indices index + 1, so h <= the index yielded now and <= len
        for atom, pol in self.f.order:
            if atom[0] == "CI" and pol is True and atom[1] == a:
                if self.char_yield(b, atom[2]) is not None:
                    return True, "char-indices monotone"
                if isinstance(b, tuple) and b[0] == "strlen" and norm_str(b[1]) == atom[2]:
                    return True, "char-indices within len"
        # an index yielded by `.enumerate().skip(n)` / `.char_indices().skip(..)` is >= n only for the byte enumeration
        peeled = [b]
        while isinstance(peeled[-1], tuple) and peeled[-1][0] == "bin" and peeled[-1][1] == "Add" and is_int(peeled[-1][3]) and peeled[-1][3][1] >= 0 and len(peeled) < 5:
            peeled.append(peeled[-1][2])
        for cand_b in peeled:
            for e in self.trace:
                if e[0] == "inv":
                    for sv in e[2].values():
                        yi = self.yield_info(cand_b, sv)
                        if yi is not None and yi[0] == "bytes" and yi[2] is not None:
                            ok2, _ = (True, "") if yi[2] == a else self.le(a, yi[2]) if a != yi[2] and not (isinstance(a, tuple) and a == b) else (False, "")
                            if ok2:
                                return True, "enumerate-skip lower bound"
        # ordered by construction: a = p0 + len(lit), b = p0 + find(s[p0..], pat2), pat2 not in lit
        r = self.by_construction(a, b)
        if r:
            return True, "order-by-construction"
        return False, "cannot order %s <= %s" % (short(a)[:80], short(b)[:80])

    def by_construction(self, a, b):
        if not (isinstance(a, tuple) and a[0] == "bin" and a[1] == "Add" and isinstance(b, tuple) and b[0] == "bin" and b[1] == "Add"):
            return False
        for p0, k in ((a[2], a[3]), (a[3], a[2])):
            if not is_int(k):
                continue
            fp0 = self.find_payload(p0)
            if fp0 is None:
                continue
            lit = pat_text(fp0[1])
            if lit is None or len(lit.encode()) != k[1]:
                continue
            for x, j in ((b[2], b[3]), (b[3], b[2])):
                if x != p0:
                    continue
                fpj = self.find_payload(j)
                if fpj is None:
                    continue
                rf = self.range_from_start(fpj[0])
                if rf is None or rf[0] != fp0[0] or rf[1] != p0:
                    continue
                p2 = pat_text(fpj[1])
                if p2 is not None and p2 not in lit:
                    return True
        return False

    def bounded_by_len(self, t):
        """t <= length of some string / small constant (so sums of two such cannot overflow usize)"""
        if is_int(t):
            return 0 <= t[1] < (1 << 32)
        if isinstance(t, tuple) and t[0] == "strlen":
            return True
        if self.find_payload(t) is not None:
            return True
        for atom, pol in self.f.order:
            if atom[0] == "B" and pol is True and atom[1] == t:
                return True
            if atom[0] == "lt" and pol is True and atom[1] == t and isinstance(atom[2], tuple) and atom[2][0] in ("strlen", "len"):
                return True
            # t < len - k
            if atom[0] == "lt" and pol is True and atom[1] == t and isinstance(atom[2], tuple) and len(atom[2]) == 4 and atom[2][0] == "bin" \
                    and atom[2][1] == "Sub" and isinstance(atom[2][2], tuple) and atom[2][2][0] in ("strlen", "len") and is_int(atom[2][3]):
                return True
        if isinstance(t, tuple) and t[0] == "bin" and t[1] == "Add":
            # a sum that is itself a boundary of some string
            for atom, pol in self.f.order:
                pass
            return self.bounded_by_len(t[2]) and self.bounded_by_len(t[3]) and (is_int(t[2]) or is_int(t[3]) or True)
        if self.char_yield_any(t):
            return True
        return False

    def char_yield_any(self, t):
        """an index yielded by an index-producing iterator over some string of this path (hence < its length)"""
        if isinstance(t, tuple) and t[0] == "field" and t[3] == "0" and isinstance(t[1], tuple) and t[1][0] == "field" and \
                isinstance(t[1][1], tuple) and t[1][1][0] == "call" and "CharIndices" in t[1][1][1]:
            return True
        for e in self.trace:
            if e[0] == "inv":
                for sv in e[2].values():
                    if self.yield_info(t, sv) is not None:
                        return True
        return False


def _signed_atom(x):
    return isinstance(x, tuple) and x and x[0] == "signed"


# ------------------------------------------------------------------------------------------ discharge of one site

def discharge(e, facts, trace):
    """-> (ok, rule, detail) for a panic-site event"""
    if e[0] == "assert":
        _, msg, ops, site, nf, span, cond, expected = e
        if is_int(cond) and (cond[1] != 0) == bool(expected):
            return True, "constant", "the checked condition is a compile-time constant"
        R = Reason(PrefixFacts(facts, nf).f, trace)
        if msg == "bounds":
            ln, idx = ops
            if R.f.decide_atom(("lt", idx, ln)) is True:
                return True, "len-guard", "index < len is a dominating fact"
            return False, "bounds", "no dominating fact %s < %s" % (short(idx)[:60], short(ln)[:60])
        if msg == "overflow:Add":
            a, b = ops
            if _signed_atom(a) or _signed_atom(b):
                if (is_int(b) and abs(b[1]) <= 1) or (is_int(a) and abs(a[1]) <= 1):
                    return True, "char-counter", "signed per-character depth counter (assumes input < 2 GiB)"
                return False, "overflow:Add", "signed addition of %s and %s" % (short(a)[:50], short(b)[:50])
            if R.bounded_by_len(a) and R.bounded_by_len(b):
                return True, "add-bounded", "both operands are bounded by a string length or a small constant"
            return False, "overflow:Add", "operands not bounded by a length: %s + %s" % (short(a)[:80], short(b)[:80])
        if msg == "overflow:Sub":
            a, b = ops
            if _signed_atom(a) or _signed_atom(b):
                if is_int(b) and abs(b[1]) <= 1:
                    return True, "char-counter", "signed per-character depth counter (assumes input < 2 GiB)"
                return False, "overflow:Sub", "signed subtraction"
            ok, why = R.le(b, a)
            if ok:
                return True, "sub-guard", why
            # strlen(s) - k under ends_with / bracketed
            if isinstance(a, tuple) and a[0] == "strlen" and is_int(b):
                s = norm_str(a[1])
                for st, p in R.ends_with_facts():
                    if st == s and (pat_len(p) or 0) >= b[1]:
                        return True, "suffix-guard", "string ends with a pattern of that length"
                if R.bracketed(s) and b[1] <= 2:
                    return True, "bracketed-len", "bracketed substring has length >= 2"
            return False, "overflow:Sub", why
        return False, msg, "unhandled assert kind"
    if e[0] == "call":
        nf = e[7] if len(e) > 7 else len(facts.order)
        R = Reason(PrefixFacts(facts, nf).f, trace)
        argv = e[3][2] if isinstance(e[3], tuple) and e[3][0] == "call" else e[2]
        name = e[1].split("::")[-1]
        if is_str_index(e):
            s = norm_str(argv[0])
            rng = argv[1]
            return discharge_str_range(R, s, rng)
        if is_vec_index(e):
            v, k = argv[0], argv[1]
            if isinstance(k, tuple) and k[0] == "agg" and isinstance(k[1], str) and k[1].endswith("RangeFull"):
                return True, "full-range", "v[..] cannot panic"
            if is_int(k):
                for atom, pol in R.f.order:
                    if atom[0] == "eq" and pol is True:
                        for x, y in ((atom[1], atom[2]), (atom[2], atom[1])):
                            if is_int(y) and isinstance(x, tuple) and x[0] == "call" and x[1].endswith("::len") and x[2] and x[2][0] == v and k[1] < y[1]:
                                return True, "len-guard", "len == %d dominates index %d" % (y[1], k[1])
                    if atom[0] == "lt" and pol is False and is_int(atom[2]) and isinstance(atom[1], tuple) and atom[1][0] == "call" and atom[1][1].endswith("::len") \
                            and atom[1][2] and atom[1][2][0] == v and k[1] < atom[2][1]:
                        return True, "len-guard", "len >= %d dominates index %d" % (atom[2][1], k[1])
            return False, "vec-index", "no dominating length check for index %s" % short(k)
        if name in ("with_capacity", "reserve", "reserve_exact", "resize", "resize_with", "from_elem", "with_capacity_and_hasher"):
            sizes = [a for a in argv if not (isinstance(a, tuple) and a and a[0] in ("ref", "refval", "agg", "fn", "zst"))]
            ok = all((is_int(a) and 0 <= a[1] < (1 << 32)) or R.bounded_by_len(a) for a in sizes)
            if ok:
                return True, "capacity-bounded", "requested capacity is a small constant or bounded by the input length"
            return False, name, "allocation sized by %s, which is read from the input and not bounded by its length (capacity overflow / allocation failure)" % ", ".join(short(a)[:60] for a in sizes)
        return False, name, "no discharge rule for calls to %s" % e[1]
    return False, "?", "unknown site"


def discharge_str_range(R, s, rng):
    def need_B(t):
        return R.is_B(t, s)
    if isinstance(rng, tuple) and rng[0] == "agg":
        kind = rng[1].split("::")[-1]
        fd = dict(rng[3])
        if kind == "RangeFrom":
            ok, why = need_B(fd["start"])
            return ok, "str-slice:" + why if ok else "str-slice", why
        if kind == "RangeTo":
            ok, why = need_B(fd["end"])
            return ok, "str-slice:" + why if ok else "str-slice", why
        if kind == "Range":
            ok1, w1 = need_B(fd["start"])
            ok2, w2 = need_B(fd["end"])
            ok3, w3 = R.le(fd["start"], fd["end"])
            ok = ok1 and ok2 and ok3
            return ok, ("str-slice:%s/%s/%s" % (w1, w2, w3)) if ok else "str-slice", "; ".join(w for o, w in ((ok1, w1), (ok2, w2), (ok3, w3)) if not o)
        if kind == "RangeFull":
            return True, "str-slice:full", ""
    if isinstance(rng, tuple) and rng[0] == "call" and rng[1].endswith("RangeInclusive::new") and len(rng[2]) == 2:
        a, b = rng[2]
        b1 = ("bin", "Add", b, Int(1))
        ok1, w1 = need_B(a)
        ok2, w2 = need_B(b1)
        ok3, w3 = R.le(a, b1)
        ok = ok1 and ok2 and ok3
        return ok, ("str-slice:%s/%s/%s" % (w1, w2, w3)) if ok else "str-slice", "; ".join(w for o, w in ((ok1, w1), (ok2, w2), (ok3, w3)) if not o)
    return False, "str-slice", "unrecognised range %s" % short(rng)[:100]


# ------------------------------------------------------------------------------------------ invariants (Houdini)

INT_TYS = {"usize", "u8", "u16", "u32", "u64", "u128", "i8", "i16", "i32", "i64", "i128", "isize"}


class Invariants:
    """candidate loop invariants per loop header key; assumed at the header, checked at the back edges.
    String-relative candidates (B, CI) name their string by SOURCE (a &str-typed local of the frame, possibly
    dereferenced), so that paths on which that local holds different terms share one candidate."""

    def __init__(self):
        self.cands = {}     # loop key -> set of candidate tuples
        self.round = 0

    def install(self, walker, body_strs):
        inv = self

        def on_loop(st, fr, key, pre):
            body = fr.body
            srcs = dict(body_strs(st, fr))          # source -> string term on this path
            if key not in inv.cands:
                c = set()
                for l, pv in pre.items():
                    if not isinstance(l, int):
                        continue    # loop-carried heap field, not a local
                    ty = body.locals[l]["ty"]
                    if ty in INT_TYS:
                        if ty == "usize":
                            for src in srcs:
                                c.add(("B", l, src))
                                c.add(("CI", l, src))
                        c.add(("GE", l, unsign(pv)))
                    elif "&str" in ty or "&'" in ty and "str" in ty:
                        c.add(("BR", l))
                inv.cands[key] = c
            st.trace.append(("inv", key, srcs))
            for cand in inv.cands[key]:
                l = cand[1]
                h = ("havoc", key, l)
                ty = body.locals[l]["ty"]
                if cand[0] in ("B", "CI"):
                    sv = srcs.get(cand[2])
                    if sv is None:
                        continue
                    st.facts.atoms[(cand[0], h, sv)] = True
                    st.facts.order.append(((cand[0], h, sv), True))
                elif cand[0] == "GE":
                    hs = ("signed", h) if ty.startswith("i") else h
                    st.facts.atoms[("GE", hs, cand[2])] = True
                    st.facts.order.append((("GE", hs, cand[2]), True))
                    # also as an ordinary comparison fact so that branch folding benefits
                    st.facts.assume(("bin", "Ge", hs, cand[2]), True)
                elif cand[0] == "BR":
                    st.facts.atoms[("BR", h)] = True
                    st.facts.order.append((("BR", h), True))
        walker.on_loop = on_loop

    @staticmethod
    def _srcs_of(trace, key):
        for e in trace:
            if e[0] == "inv" and e[1] == key:
                return e[2]
        return {}

    def check(self, results, bodies):
        """drop candidates that fail base or step; return number dropped"""
        dropped = 0
        for r in results:
            for e in r.trace:
                if e[0] != "loop":
                    continue
                key, pre = e[1], e[2]
                srcs = self._srcs_of(r.trace, key)
                for cand in list(self.cands.get(key, ())):
                    pv = pre.get(cand[1])
                    R = Reason(_facts_without(r.facts, key), r.trace)
                    if not _holds(self._inst(cand, srcs), pv, R, key, None):
                        self.cands[key].discard(cand)
                        dropped += 1
        for r in results:
            if r.kind != "backedge":
                continue
            key = Walker._site_str(r.detail)
            fr = None
            for f in r.state.frames.values():
                if f.body.defp == r.detail[1] and f.site == r.detail[0]:
                    fr = f
            if fr is None:
                continue
            R = Reason(r.facts, r.trace)
            srcs = self._srcs_of(r.trace, key)
            for cand in list(self.cands.get(key, ())):
                nv = fr.locals.get(cand[1])
                if not _holds(self._inst(cand, srcs), nv, R, key, cand[1]):
                    self.cands[key].discard(cand)
                    dropped += 1
        return dropped

    @staticmethod
    def _inst(cand, srcs):
        if cand[0] in ("B", "CI"):
            sv = srcs.get(cand[2])
            return (cand[0], cand[1], sv) if sv is not None else (cand[0], cand[1], ("<no-such-string-on-this-path>",))
        return cand


def _facts_without(facts, key):
    f = Facts()
    for atom, pol in facts.order:
        if any(isinstance(z, tuple) and z and z[0] == "havoc" and z[1] == key for z in subterms(atom)):
            continue
        if atom[0] == "variant":
            f.variant[atom[1]] = atom[2]
        else:
            f.atoms[atom] = pol
        f.order.append((atom, pol))
    return f


def _holds(cand, val, R, key, l_self):
    if val is None:
        return False
    val_u = unsign(val) if cand[0] != "GE" else val
    if cand[0] == "B":
        h = ("havoc", key, cand[1])
        if val_u == h:
            return True
        ok, _ = R.is_B(val_u, cand[2])
        return ok
    if cand[0] == "GE":
        T = cand[2]
        v = val
        if unsign(v) == T:
            return True
        h = ("havoc", key, cand[1])
        hs = ("signed", h)
        # new = h + k (k >= 0) keeps h >= T ; for signed counters: h - 1 with h - 1 != T - 1 ... handled via facts
        for hh in (h, hs):
            d = affine(unsign(v)).add(affine(h), -1)
            if d.is_const():
                if d.k >= 0:
                    return True
                # h - 1 >= T  given  h >= T and h - 1 != T - 1  i.e. h != T
                if d.k == -1 and is_int(T):
                    for atom, pol in R.f.order:
                        if atom[0] == "eq" and pol is False:
                            for x, y in ((atom[1], atom[2]), (atom[2], atom[1])):
                                if is_int(y) and y[1] == T[1] - 1 and unsign(x) == unsign(v):
                                    return True
                return False
        ok, _ = R.le(T, unsign(v))
        return ok
    if cand[0] == "CI":
        h = ("havoc", key, cand[1])
        if val_u == h or val_u == Int(0):
            return True
        if isinstance(val_u, tuple) and val_u[0] == "bin" and val_u[1] == "Add":
            for x, k in ((val_u[2], val_u[3]), (val_u[3], val_u[2])):
                if is_int(k) and k[1] >= 1 and R.char_yield(x, cand[2]) == k[1]:
                    return True
        return False
    if cand[0] == "BR":
        h = ("havoc", key, cand[1])
        v = val_u
        if v == h:
            return True
        if isinstance(v, tuple) and v[0] == "agg" and v[2] == "None":
            return True
        if isinstance(v, tuple) and v[0] == "agg" and v[2] == "Some":
            x = norm_str(dict(v[3])["0"])
            return _bracketed_value(x, R)
        return False
    return False


def _bracketed_value(x, R):
    """x = s[a..=b] with an ASCII char at a and at b and b >= a+1"""
    if not (isinstance(x, tuple) and x[0] == "call" and is_str_index(("call", x[1])) and len(x[2]) == 2):
        return False
    s, rng = norm_str(x[2][0]), x[2][1]
    if not (isinstance(rng, tuple) and rng[0] == "call" and rng[1].endswith("RangeInclusive::new")):
        return False
    a, b = rng[2]
    first = R.match_len_at(s, a) == 1
    yi = R.yield_info(b, s)
    last = R.ascii_byte_at(s, b) or (yi is not None and yi[1] == 1)
    ok, _ = R.le(("bin", "Add", a, Int(1)), b)
    return first and last and ok
