"""Rules about OrderQueue's own primitives (map + ticket queue): shared by C03 C04 C06 C08 C10 C11 C13 C19."""
from .effects import make_effect_fn, classify
from .terms import short, subterms, Int
from .db import AnchorError, strip_generics
from .common import describe_path

QSELF = ("obj", ("param", 1))


def eff_in(t, name):
    for s in subterms(t):
        if isinstance(s, tuple) and len(s) >= 3 and s[0] == "eff" and s[1] == name:
            return s
    return None


class QueueAnalysis:
    inplace_updaters = None

    def __init__(self, ctx):
        self.ctx = ctx
        self.db = ctx.db
        self.adt = self.db.adt("price_level::order_queue::OrderQueue")
        self.qmod = self.adt["def"].rsplit("::", 1)[0] + "::"      # the module OrderQueue lives in (whatever its name)
        fields = self.adt["variants"][0]["fields"]
        m = [f for f in fields if "DashMap" in f["ty"]]
        t = [f for f in fields if "SegQueue" in f["ty"]]
        if len(m) > 1 and len([f for f in m if "OrderType" in f["ty"]]) == 1:
            # side tables next to the order map (bookkeeping keyed by id): the order map is the one storing orders; the
            # operations on the others still count as map operations in the primitives' tables (and are reported there)
            m = [f for f in m if "OrderType" in f["ty"]]
        if len(m) != 1 or len(t) != 1:
            raise AnchorError("OrderQueue: expected exactly one DashMap field and one SegQueue field")
        self.map_field, self.ticket_field = m[0], t[0]
        # the map may store the order directly or wrapped in a crate struct with exactly one order-typed field
        # (`QueuedOrder { ticket, order }`); a ticket may be the id or a tuple / struct with exactly one id component
        self.vproj = self._order_field_of(self._generic_args(self.map_field["ty"])[-1:], "OrderType")
        self.tproj = self._order_field_of(self._generic_args(self.ticket_field["ty"])[-1:], "OrderId")
        self._cache = {}
        self.inplace_updaters = set()

    def walker(self):
        from .level import entry_model, entry_write
        w = self.ctx.walker()
        w.effect_of = make_effect_fn({"ATOMIC", "MAP", "TICKET", "NONDET"})
        w.custom_model = entry_model
        w.on_heap_write = entry_write
        return w

    def paths(self, name, trait=None):
        key = (name, trait)
        if key not in self._cache:
            b = self.db.method("OrderQueue", name, trait=trait)
            w = self.walker()
            self._cache[key] = (b, w.walk(b), w.stats)
        return self._cache[key]

    @staticmethod
    def _generic_args(ty):
        """top-level generic arguments of `Path<A, B>`"""
        i = ty.find("<")
        if i < 0:
            return []
        inner, depth, cur, out = ty[i + 1:ty.rfind(">")], 0, "", []
        for ch in inner:
            if ch in "<(":
                depth += 1
            elif ch in ">)":
                depth -= 1
            if ch == "," and depth == 0:
                out.append(cur.strip())
                cur = ""
            else:
                cur += ch
        if cur.strip():
            out.append(cur.strip())
        return out

    def _order_field_of(self, tys, what):
        """None when the type *is* the thing (Arc<OrderType>, OrderId); else the name of the single field / tuple index
        of a wrapper that holds it; raises if ambiguous"""
        if not tys:
            return None
        ty = tys[0]
        bare = ty.replace(" ", "")
        if what == "OrderType" and (bare.startswith("std::sync::Arc<") or bare.startswith("alloc::sync::Arc<")) and "OrderType" in bare:
            return None
        if what == "OrderId" and bare.endswith("OrderId") and "(" not in bare:
            return None
        if bare.startswith("("):
            comps = self._generic_args("T<" + bare[1:-1] + ">")
            idx = [i for i, c in enumerate(comps) if what in c]
            if len(idx) == 1:
                return str(idx[0])
            raise AnchorError("OrderQueue: cannot locate the %s component of %s" % (what, ty))
        a = [x for d, x in self.db.adts.items() if d == bare or bare.endswith("::" + d.split("::")[-1]) and d.split("::")[-1] == bare.split("::")[-1].split("<")[0]]
        if len(a) == 1 and a[0]["kind"] == "struct":
            fs = [f["name"] for f in a[0]["variants"][0]["fields"] if what in f["ty"]]
            if len(fs) == 1:
                return fs[0]
        raise AnchorError("OrderQueue: cannot locate the %s inside %s" % (what, ty))

    def order_of(self, v):
        """the order stored in a map value term"""
        if self.vproj is None:
            return v
        if isinstance(v, tuple) and v[0] == "agg":
            return dict(v[3]).get(self.vproj)
        return ("field", v, None, self.vproj)

    def id_of_ticket(self, t):
        if self.tproj is None:
            return t
        if isinstance(t, tuple) and t[0] == "tuple" and self.tproj.isdigit() and int(self.tproj) < len(t[1]):
            return t[1][int(self.tproj)]
        if isinstance(t, tuple) and t[0] == "agg":
            return dict(t[3]).get(self.tproj)
        return ("field", t, None, self.tproj)

    @staticmethod
    def field_of(ref):
        if isinstance(ref, tuple) and ref[0] == "ref":
            _, root, path = ref[1]
            if root == QSELF and len(path) >= 1 and path[0][0] == "f":
                return path[0][2]
        return None

    def effs(self, r, cls=None):
        out = []
        for e in r.trace:
            if e[0] == "eff" and (cls is None or e[1].startswith(cls + ".")):
                out.append(e)
        return out

    # ------------------------------------------------------------------ rules
    def rule_private(self, chk, rid):
        """both storage fields are private (closed world for who-may-read/write)"""
        for f in (self.map_field, self.ticket_field):
            chk.require(f["vis"] not in ("pub",), rid, "OrderQueue.%s:private" % f["name"], self.adt["span"],
                        "field %s is %s" % (f["name"], f["vis"]))

    def rule_push(self, chk, rid_pair, rid_order):
        """P1/Q1: push = exactly one MAP.insert(id(order), order) followed by exactly one TICKET.push(id(order))"""
        b, res, _ = self.paths("push")
        n = 0
        for r in res:
            if r.kind != "return":
                chk.fail(rid_pair, "%s:exit-%s" % (b.defp, r.kind), b.span, "push has a %s path" % r.kind, describe_path(r))
                continue
            n += 1
            ins = [e for e in self.effs(r, "MAP") if e[1] != "MAP.len"]
            tk = self.effs(r, "TICKET")
            ok = len(ins) == 1 and ins[0][1] == "MAP.insert" and len(tk) == 1 and tk[0][1] == "TICKET.push"
            if not chk.require(ok, rid_pair, b.defp + ":one-insert-one-ticket", b.span,
                               "push performs %s / %s" % ([e[1] for e in ins], [e[1] for e in tk]), describe_path(r)):
                continue
            order = ("param", 2)
            key, val = ins[0][2][1], ins[0][2][2]
            tid = tk[0][2][1]
            v = r.facts.variant.get(order)
            idf = self.ctx.roles.id_field.get(v) if v else None
            want = ("field", order, v, idf) if idf else None
            chk.require(self.order_of(val) == order and key == want and self.id_of_ticket(tid) == want, rid_pair, b.defp + ":same-id", b.span,
                        "insert(%s, %s) / ticket(%s): expected the order and its own id" % (short(key), short(val), short(tid)), describe_path(r))
            chk.require(self.field_of(ins[0][2][0]) == self.map_field["name"] and self.field_of(tk[0][2][0]) == self.ticket_field["name"],
                        rid_pair, b.defp + ":own-fields", b.span, "push does not use the queue's own map/ticket fields")
            # publish order: the map insert precedes the ticket append
            pos = {id(e): i for i, e in enumerate(r.trace)}
            if rid_order is not None:
              chk.require(pos[id(ins[0])] < pos[id(tk[0])], rid_order, b.defp + ":insert-before-ticket", tk[0][5],
                        "the ticket is appended before the order is in the map: a concurrent pop would discard the ticket and strand the order",
                        describe_path(r))
        chk.require(n >= 1, rid_pair, b.defp + ":analysed", b.span, "no return path")

    def rule_pop(self, chk, rid_fifo, rid_term, rid_handout, seq=False):
        """P1/T4/K4 for pop.  seq=True (single-threaded properties): a lookup of the popped ticket followed by the
        removal of the same key is accepted as equivalent to handing out the removal's payload."""
        b, res, _ = self.paths("pop")
        kinds = {"some": 0, "none": 0, "retry": 0}
        for r in res:
            tk = self.effs(r, "TICKET")
            mp = self.effs(r, "MAP")
            seg_t = [e for e in tk]
            if any(e[1] != "TICKET.pop" for e in tk):
                chk.fail(rid_fifo, b.defp + ":ticket-ops", b.span, "pop performs %s" % [e[1] for e in tk], describe_path(r))
                continue
            if r.kind == "backedge":
                kinds["retry"] += 1
                # a retry consumes a ticket and happens only on a map miss
                last_t = tk[-1] if tk else None
                ok = last_t is not None and r.facts.variant.get(last_t[3]) == "Some"
                chk.require(ok, rid_term, b.defp + ":retry-consumes-ticket", b.span,
                            "the loop continues without having consumed a ticket", describe_path(r))
                rem = [e for e in mp if e[1] in ("MAP.remove", "MAP.remove_if")]
                ok2 = len(rem) >= 1 and r.facts.variant.get(rem[-1][3]) == "None"
                if seq and not ok2:
                    gets = [e for e in mp if e[1] == "MAP.get"]
                    ok2 = len(gets) >= 1 and r.facts.variant.get(gets[-1][3]) == "None"
                chk.require(ok2, rid_fifo, b.defp + ":retry-only-on-miss", b.span,
                            "pop retries although the ticket's order was found", describe_path(r))
                continue
            if r.kind == "unreachable":
                continue    # pruned: syntactically contradictory alternative
            if r.kind != "return":
                chk.fail(rid_term, b.defp + ":exit-%s" % r.kind, b.span, "pop has a %s path" % r.kind, describe_path(r))
                continue
            v = r.value
            var = v[2] if isinstance(v, tuple) and v[0] == "agg" else r.facts.variant.get(v)
            if var == "Some":
                kinds["some"] += 1
                payload = dict(v[3])["0"] if isinstance(v, tuple) and v[0] == "agg" else None
                rem = [e for e in mp if e[1] in ("MAP.remove", "MAP.remove_if")]
                ok = payload is not None and len(rem) >= 1 and payload == self.order_of(("field", ("field", rem[-1][3], "Some", "0"), None, "1"))
                if seq and not ok and payload is not None and rem:
                    # sequentially, get(k) followed by remove(k) yields the same entry
                    gets = [e for e in mp if e[1] == "MAP.get"]
                    ok = len(gets) == 1 and eff_in(payload, "MAP.get") == gets[0][3] and self._same_key(r, gets[0], rem[-1])
                chk.require(ok, rid_handout, b.defp + ":hands-out-removed-entry", b.span,
                            "pop returns %s, which is not the entry its own map.remove took out" % short(payload), describe_path(r))
                # the removed key is the ticket just popped
                if rem and tk:
                    kref = rem[-1][2][1]
                    tpay = ("field", tk[-1][3], "Some", "0")
                    # key argument as seen at call time (a reference to a local holding the ticket payload)
                    kv = rem[-1][7][1] if len(rem[-1]) > 7 else None
                    kv = kv[1] if isinstance(kv, tuple) and kv[0] == "refval" else kv
                    okk = kv == self.id_of_ticket(tpay)
                    chk.require(okk, rid_fifo, b.defp + ":removes-popped-ticket", b.span,
                                "pop removes key %s, not the ticket it just took" % short(kref), describe_path(r))
                others = [e for e in mp if e[1] not in (("MAP.remove", "MAP.remove_if", "MAP.get") if seq else ("MAP.remove", "MAP.remove_if"))]
                chk.require(not others, rid_handout, b.defp + ":no-other-map-ops", b.span, "pop also performs %s" % [e[1] for e in others])
            elif var == "None":
                kinds["none"] += 1
                ok = len(tk) >= 1 and r.facts.variant.get(tk[-1][3]) == "None"
                chk.require(ok, rid_term, b.defp + ":none-only-when-tickets-exhausted", b.span,
                            "pop reports an empty queue although the last ticket it took was not the end of the ticket queue "
                            "(orders behind a stale ticket become unreachable)", describe_path(r))
            else:
                chk.fail(rid_handout, b.defp + ":return-shape", b.span, "pop returns %s" % short(v), describe_path(r), undecided=True)
        chk.require(kinds["some"] >= 1 and kinds["none"] >= 1 and kinds["retry"] >= 1, rid_fifo, b.defp + ":shape", b.span,
                    "pop paths: %s (expected a hit, an exhausted-queue exit and a skip-stale-ticket retry)" % kinds)

    def _key_is(self, r, e, want):
        k = e[7][1] if len(e) > 7 and len(e[7]) > 1 else None
        while isinstance(k, tuple) and k and k[0] == "refval":
            k = k[1]
        if k is None and isinstance(e[2][1], tuple) and e[2][1][0] == "ref":
            k = self.walker()._read(r.state, e[2][1][1])
        return k == want

    def _same_key(self, r, e1, e2):
        def keyval(e):
            # argument values as seen at call time (shared refs to locals are recorded by value)
            k = e[7][1] if len(e) > 7 else e[2][1]
            if isinstance(k, tuple) and k[0] == "refval":
                return k[1]
            return k
        a, b = keyval(e1), keyval(e2)
        return a is not None and a == b

    def rule_remove_find(self, chk, rid, seq=False):
        """K4: remove hands out the payload of MAP.remove(id); find/to_vec hand out clones from MAP.get/iter.
        seq=True (single-threaded properties): a lookup of the id followed by the removal of the same key, handing
        out the value looked up, is the same thing."""
        b, res, _ = self.paths("remove")
        for r in res:
            if r.kind != "return":
                chk.fail(rid, b.defp + ":exit-%s" % r.kind, b.span, "remove has a %s path" % r.kind)
                continue
            mp = [e for e in self.effs(r, "MAP")]
            tk = self.effs(r, "TICKET")
            if seq and len(mp) == 2 and mp[0][1] == "MAP.get" and mp[1][1] == "MAP.remove" and self._same_key(r, mp[0], mp[1]) \
                    and self._key_is(r, mp[1], ("param", 2)):
                # sequentially get(k) then remove(k) yield the same entry: what is handed out must be the value looked up
                v = r.value
                got = dict(v[3]).get("0") if isinstance(v, tuple) and v[0] == "agg" and v[2] == "Some" else None
                okv = got is not None and eff_in(got, "MAP.get") == mp[0][3]
                chk.require(okv, rid, b.defp + ":hands-out-removed-entry", b.span, "remove returns %s, not the entry it looked up and removed" % short(v), describe_path(r))
                continue
            if seq and len(mp) == 1 and mp[0][1] == "MAP.get" and r.facts.variant.get(mp[0][3]) == "None":
                v = r.value
                isnone = (isinstance(v, tuple) and v[0] == "agg" and v[2] == "None")
                chk.require(isnone, rid, b.defp + ":none-on-miss", b.span, "remove returns %s on a miss" % short(v), describe_path(r))
                continue
            ok = len(mp) == 1 and mp[0][1] == "MAP.remove"
            chk.require(ok, rid, b.defp + ":one-map-remove", b.span, "remove performs %s" % [e[1] for e in mp], describe_path(r))
            if not ok:
                continue
            # key = &order_id param
            kref = mp[0][2][1]
            kv = self.walker()._read(r.state, kref[1]) if isinstance(kref, tuple) and kref[0] == "ref" else None
            chk.require(kv == ("param", 2), rid, b.defp + ":key-is-argument", b.span, "remove uses key %s" % short(kv))
            res_t = mp[0][3]
            v = r.value
            if r.facts.variant.get(res_t) == "Some":
                want = self.order_of(("field", ("field", res_t, "Some", "0"), None, "1"))
                got = dict(v[3]).get("0") if isinstance(v, tuple) and v[0] == "agg" and v[2] == "Some" else None
                chk.require(got == want, rid, b.defp + ":hands-out-removed-entry", b.span,
                            "remove returns %s, not the entry taken out of the map" % short(v), describe_path(r))
            else:
                isnone = (isinstance(v, tuple) and v[0] == "agg" and v[2] == "None") or v == res_t
                chk.require(isnone, rid, b.defp + ":none-on-miss", b.span, "remove returns %s on a miss" % short(v), describe_path(r))
        for nm in ("find",):
            b, res, _ = self.paths(nm)
            for r in res:
                if r.kind != "return":
                    continue
                mp = self.effs(r, "MAP")
                bad = [e[1] for e in mp if e[1] not in ("MAP.get", "MAP.contains_key")]
                chk.require(not bad and not self.effs(r, "TICKET"), rid, b.defp + ":read-only", b.span,
                            "%s performs %s" % (nm, bad + [e[1] for e in self.effs(r, "TICKET")]), describe_path(r))

    def who_may(self, chk, rid):
        """Q2: MAP.insert only in push; TICKET.pop only in pop; MAP.remove only in pop/remove; nothing outside
        the OrderQueue impl touches the two containers"""
        cg = self.ctx.cg
        allowed = {
            ("MAP", "insert"): {"push"}, ("TICKET", "push"): {"push"}, ("TICKET", "pop"): {"pop"},
            ("MAP", "remove"): {"pop", "remove"}, ("MAP", "remove_if"): {"pop"},
        }
        n = 0
        for d, effs in cg.direct.items():
            body = self.db.bodies[d]
            for c, m, bb, callee, span in effs:
                if c not in ("MAP", "TICKET"):
                    continue
                n += 1
                owner = body
                while owner.kind == "Closure" and owner.parent in self.db.bodies:
                    owner = self.db.bodies[owner.parent]
                in_queue_impl = strip_generics(owner.impl_self or "").split("::")[-1] in ("OrderQueue", "OrderQueueVisitor")
                chk.require(in_queue_impl or m in ("new",), rid, "%s:%s.%s:outside-queue" % (d, c, m), span,
                            "%s.%s performed outside the OrderQueue implementation (in %s)" % (c, m, d))
                if (c, m) in allowed:
                    chk.require(owner.name in allowed[(c, m)] and owner.impl_trait is None, rid, "%s:%s.%s" % (d, c, m), span,
                                "%s.%s performed in %s; only %s may" % (c, m, d, sorted(allowed[(c, m)])))
                elif m in ("new", "default"):
                    pass
                elif c == "MAP" and m in ("get", "iter", "len", "is_empty", "contains_key"):
                    pass
                elif c == "TICKET" and m in ("len", "is_empty"):
                    # reading the ticket count is harmless but must not feed len()/is_empty() (Y1)
                    pass
                elif c == "MAP" and m == "get_mut" and in_queue_impl and self._inplace_updater(owner):
                    # an in-place update primitive: locks one entry of the id map and (at most) overwrites its value;
                    # it inserts / removes nothing and never touches the tickets, so the FIFO shape is unchanged.
                    # That the stored order keeps the key's id is checked where the replacement value is known:
                    # by an id guard inside the primitive (rule_inplace_guard) or at every crate call site (level rules)
                    self.inplace_updaters.add(owner.defp)
                else:
                    chk.fail(rid, "%s:%s.%s:unexpected" % (d, c, m), span, "unexpected container operation %s.%s in %s" % (c, m, d))
        chk.require(n >= 6, rid, "container-ops-found", "", "only %d container operations found" % n)
        self.rule_inplace_guard(chk, rid)

    def _inplace_updater(self, owner):
        """owner (an OrderQueue method) and its closures perform no container operation except MAP.get_mut / reads"""
        cg = self.ctx.cg
        bodies = [owner.defp] + [c.defp for c in self.db.closures_of(owner.defp)]
        for d in bodies:
            for c, m, bb, callee, span in cg.direct.get(d, []):
                if c == "TICKET" and m not in ("len", "is_empty"):
                    return False
                if c == "MAP" and m not in ("get_mut", "get", "len", "is_empty", "contains_key", "iter"):
                    return False
        return True

    def rule_inplace_guard(self, chk, rid):
        """a *public* in-place update primitive must itself refuse a replacement whose id differs from the key (a
        crate-internal one is checked at its call sites by the level rules)"""
        for d in sorted(self.inplace_updaters):
            b = self.db.bodies[d]
            if getattr(b, "vis", None) != "pub":
                chk.ok(rid, d + ":inplace-crate-internal", b.span)
                continue
            w = self.walker()
            res = w.walk(b)
            for r in res:
                if r.kind != "return":
                    continue
                stores = [e for e in r.trace if e[0] == "eff" and e[1] == "MAP.entry_store"]
                if not stores:
                    continue
                guarded = any(a[0] == "eq" and pol is True and ("id" in short(a[1]) or "id" in short(a[2])) for a, pol in r.facts.order)
                chk.require(guarded, rid, d + ":inplace-id-guard", b.span,
                            "the public in-place update %s stores a replacement without checking that its id equals the key" % b.name, describe_path(r))

    def rule_one_store(self, chk, rid):
        """Y1: find/remove/len/is_empty/to_vec/Display/Serialize read the map field (not the ticket queue)"""
        for nm, tr in (("len", None), ("is_empty", None), ("to_vec", None), ("find", None), ("serialize", "Serialize")):
            b, res, _ = self.paths(nm, trait=tr)
            for r in res:
                if r.kind not in ("return", "backedge"):
                    continue
                tk = [e for e in self.effs(r, "TICKET")]
                chk.require(not tk, rid, b.defp + ":no-ticket-read", b.span,
                            "%s consults the ticket queue (%s): tickets of removed orders stay behind, so it miscounts" % (nm, [e[1] for e in tk]),
                            describe_path(r))
                if nm in ("len", "is_empty") and r.kind == "return":
                    mp = self.effs(r, "MAP")
                    ok = len(mp) == 1 and mp[0][1] == "MAP." + nm and r.value == mp[0][3] and self.field_of(mp[0][2][0]) == self.map_field["name"]
                    if not ok and nm == "is_empty" and len(mp) == 1 and mp[0][1] == "MAP.len" and self.field_of(mp[0][2][0]) == self.map_field["name"]:
                        # `self.len() == 0` (what the map's own is_empty does)
                        v = r.value
                        ok = isinstance(v, tuple) and v[0] == "bin" and v[1] == "Eq" and {v[2], v[3]} == {mp[0][3], Int(0)}
                    chk.require(ok, rid, b.defp + ":is-map-" + nm, b.span, "%s returns %s" % (nm, short(r.value)), describe_path(r))

    def rule_to_vec(self, chk, rid):
        """V2: to_vec = collect(map-iteration clones), last mutation a sort keyed on timestamp()"""
        b, res, _ = self.paths("to_vec")
        rets = [r for r in res if r.kind == "return"]
        chk.require(len(rets) >= 1, rid, b.defp + ":analysed", b.span, "no return path")
        for r in rets:
            v = r.value
            # expected: ('mut', sortcall, 0) over collect(map(iter(MAP)))
            muts = []
            t = v
            while isinstance(t, tuple) and t[0] == "mut":
                muts.append(t[1])
                base = t[1][2][0] if t[1][2] else None
                t = base[1] if isinstance(base, tuple) and base[0] == "refval" else base
            ok_src = eff_in(v, "MAP.iter") is not None and "collect" in short(v)
            if not ok_src:
                ok_src = self._listing_by_push_loop(b, res, v)
            chk.require(ok_src, rid, b.defp + ":collect-over-map-iter", b.span, "listing is %s" % short(v)[:300], describe_path(r))
            sorts = [m for m in muts if isinstance(m, tuple) and m[0] == "call" and ("sort" in m[1])]
            chk.require(len(muts) == len(sorts) and len(sorts) == 1, rid, b.defp + ":sorted-last", b.span,
                        "mutations applied to the listing: %s" % [m[1] for m in muts if isinstance(m, tuple)], describe_path(r))
            if len(sorts) == 1:
                ok, why = self._sort_key_is_timestamp(sorts[0])
                chk.require(ok, rid, b.defp + ":sort-key-timestamp", b.span, why, describe_path(r))
            chk.require(not self.effs(r, "TICKET"), rid, b.defp + ":no-ticket", b.span, "to_vec touches the ticket queue")

    def _listing_by_push_loop(self, b, res, v):
        """idiom B: `let mut out = Vec::new(); for e in self.orders.iter() { out.push(e.value().clone()) }` - the listing is
        the loop-carried vector of a loop over the map's iteration that pushes exactly the current entry once"""
        hv = [s for s in subterms(v) if isinstance(s, tuple) and s[0] == "havoc" and len(s) == 3 and isinstance(s[2], int)]
        if len(hv) != 1:
            return False
        key, l = hv[0][1], hv[0][2]
        iters = [r for r in res if r.kind == "backedge" and r.trace and any(e[0] == "loop" and e[1] == key for e in r.trace)]
        if not iters:
            return False
        for r in iters:
            mark = [e for e in r.trace if e[0] == "loop" and e[1] == key][0]
            pre = mark[2].get(l)
            if not (isinstance(pre, tuple) and pre[0] == "call" and pre[1].endswith("Vec::new")):
                return False
            if not any(eff_in(x, "MAP.iter") is not None for x in mark[2].values() if isinstance(x, tuple)):
                return False
            seg = r.since_loop()
            pushes = [e for e in seg if e[0] == "call" and e[1].endswith("Vec::push") and e[2] and isinstance(e[2][0], tuple)
                      and e[2][0][0] == "ref" and e[2][0][1][1][0] == "local" and e[2][0][1][1][2] == l]
            nexts = [e for e in seg if e[0] == "call" and e[1].endswith("::next")]
            if len(pushes) != 1 or len(nexts) != 1:
                return False
            if not any(s == nexts[0][3] for s in subterms(pushes[0][3][2][1])):
                return False
        return True

    def _sort_key_is_timestamp(self, sortcall):
        """accepted idioms: sort_by_key(|o| o.timestamp()), sort_by/sort_unstable_by(|a,b| a.timestamp().cmp(&b.timestamp()))"""
        name = sortcall[1]
        clos = [a for a in sortcall[2] if isinstance(a, tuple) and a[0] == "agg" and isinstance(a[1], str) and a[1].startswith("closure:")]
        if len(clos) != 1:
            return False, "sort call %s without a closure key" % name
        cb = self.db.bodies.get(clos[0][1][len("closure:"):])
        if cb is None:
            return False, "sort closure body not found"
        w = self.ctx.walker(max_depth=3)
        ts = self.ctx.roles.ts_field
        rets = [r for r in w.walk(cb) if r.kind == "return"]
        if not rets:
            return False, "sort closure has no return path"
        for r in rets:
            val = r.value
            if "sort_by_key" in name or "sort_unstable_by_key" in name or "sort_by_cached_key" in name:
                # value must be the timestamp field of the element (param 2 deref)
                if not (isinstance(val, tuple) and val[0] == "field" and val[3] == ts.get(val[2])):
                    return False, "sort key is %s, not the order's timestamp" % short(val)
                if "param" not in repr(val[1]) :
                    return False, "sort key is not taken from the element"
            elif isinstance(val, tuple) and val[0] == "agg" and val[1].endswith("Ordering"):
                # `a.timestamp().cmp(&b.timestamp())` with the integer comparison modelled: the facts of the path decide
                def is_ts(x, param):
                    return isinstance(x, tuple) and x[0] == "field" and x[3] == ts.get(x[2]) and ("param", param) in set(subterms(x))
                found = False
                for atom, pol in r.facts.order:
                    if atom[0] in ("lt", "eq") and pol is True:
                        a_, b_ = atom[1], atom[2]
                        if val[2] == "Less" and atom[0] == "lt" and is_ts(a_, 2) and is_ts(b_, 3):
                            found = True
                        if val[2] == "Greater" and atom[0] == "lt" and is_ts(a_, 3) and is_ts(b_, 2):
                            found = True
                        if val[2] == "Equal" and atom[0] == "eq" and ((is_ts(a_, 2) and is_ts(b_, 3)) or (is_ts(a_, 3) and is_ts(b_, 2))):
                            found = True
                if not found:
                    return False, "comparator returns %s on a path that does not compare the two timestamps ascending" % val[2]
            else:
                s = short(val)
                if not (isinstance(val, tuple) and val[0] == "call" and val[1].endswith("cmp")):
                    return False, "comparator returns %s" % s
                a, bb = val[2][0], val[2][1]
                fa = [x for x in subterms(a) if isinstance(x, tuple) and x[0] == "field" and x[3] == ts.get(x[2])]
                fb = [x for x in subterms(bb) if isinstance(x, tuple) and x[0] == "field" and x[3] == ts.get(x[2])]
                if not fa or not fb:
                    return False, "comparator does not compare timestamps: %s" % s
                # argument order: first operand from param 2, second from param 3 (ascending)
                if not (("param", 2) in set(subterms(a)) and ("param", 3) in set(subterms(bb))):
                    return False, "comparator is not ascending in argument order: %s" % s
        return True, "keyed on timestamp()"

    def rule_constructors(self, chk, rid):
        """P2/Y2: From<Vec>, from_vec, FromStr, Deserialize(visit_seq): forward iteration, one push(elem) per element"""
        cands = []
        cands.append(self.db.method("OrderQueue", "from_vec"))
        cands.append(self.db.method("OrderQueue", "from", trait="From"))
        cands.append(self.db.method("OrderQueue", "from_str", trait="FromStr"))
        cands.append(self.db.method("OrderQueueVisitor", "visit_seq", trait="Visitor"))
        for b in cands:
            w = self.ctx.walker()
            base_eff = make_effect_fn({"MAP", "TICKET"})

            def eff(callee, args, st, walker, base_eff=base_eff):
                c = classify(callee)
                if c is not None and c[0] == "Q":
                    # push/new are the primitives; sibling constructors (from_vec ...) are inlined
                    return "Q.%s" % c[1] if c[1] in ("push", "new") else None
                return base_eff(callee, args, st, walker)
            w.effect_of = eff
            # element parsers / deserializers are opaque here: only the constructor's own iteration matters
            w.no_inline = lambda p: self.qmod not in p
            res = w.walk(b)
            iters = [r for r in res if r.kind == "backedge" and (self.qmod in r.detail[1] or r.detail[1] == "<for_each>")]
            chk.require(len(iters) >= 1, rid, b.defp + ":has-loop", b.span, "constructor has no element loop")
            bad_calls = set()
            for r in res:
                for e in r.trace:
                    if e[0] == "call" and (len(e[4]) == 1 or self.qmod in e[4][-1][0]) and any(x in e[1] for x in ("::rev", "sort", "::reverse", "pop", "swap", "rposition", "next_back", "rsplit", "rfold", "into_sorted", "BinaryHeap", "BTree", "HashMap", "HashSet")):
                        bad_calls.add(e[1])
            chk.require(not bad_calls, rid, b.defp + ":forward-iteration", b.span, "order-changing calls on the way: %s" % sorted(bad_calls))
            for r in iters:
                seg = r.since_loop()
                pushes = [e for e in seg if e[0] == "eff" and e[1] == "Q.push"]
                nexts = [e for e in seg if e[0] == "call" and (len(e[4]) == 1 or self.qmod in e[4][-1][0]) and (e[1].endswith("::next") or e[1].endswith("next_element"))]
                ok = len(pushes) == 1 and len(nexts) >= 1
                if not chk.require(ok, rid, b.defp + ":one-push-per-element", b.span,
                                   "an iteration performs %d pushes for %d element fetches" % (len(pushes), len(nexts)), describe_path(r)):
                    continue
                # pushed value derives from the element fetched in this iteration
                elem = nexts[-1][3]
                chk.require(any(s == elem for s in subterms(pushes[0][2][1])), rid, b.defp + ":push-current-element", b.span,
                            "pushes %s, which is not derived from the element fetched in this iteration" % short(pushes[0][2][1])[:200], describe_path(r))
            # the queue starts empty
            rets = [r for r in res if r.kind == "return"]
            for r in rets:
                v = r.value
                news = [e for e in r.trace if e[0] == "eff" and e[1] == "Q.new"]
                ok = len(news) == 1
                chk.require(ok or (isinstance(v, tuple) and v[0] == "agg" and v[2] == "Err"), rid, b.defp + ":starts-empty", b.span,
                            "constructor creates %d queues" % len(news), describe_path(r))
