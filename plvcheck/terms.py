"""Terms, facts and affine reasoning used by the path walker (E1).

Terms are hashable tuples.  No solver is involved: facts are stored in canonical syntactic
form, decided by lookup plus a handful of fixed inference rules, and integer identities are
checked by Gaussian elimination over affine forms whose atoms are uninterpreted terms.
"""
from fractions import Fraction

# ---------------------------------------------------------------- constructors

def Int(n):
    return ("int", int(n))


TRUE = ("int", 1)
FALSE = ("int", 0)
UNIT = ("tuple", ())


def is_int(t):
    return isinstance(t, tuple) and len(t) == 2 and t[0] == "int"


def agg(adt, variant, fields):
    """fields: list of (name, term)"""
    return ("agg", adt, variant, tuple(fields))


def agg_fields(t):
    return dict(t[3])


def short(t, depth=0):
    """compact rendering for messages"""
    if not isinstance(t, tuple):
        return str(t)
    if depth > 6:
        return "…"
    k = t[0]
    if k == "int":
        return str(t[1])
    if k == "str":
        return repr(t[1])
    if k == "param":
        return "arg%d" % t[1]
    if k == "field":
        v = t[2]
        return "%s.%s" % (short(t[1], depth + 1), t[3]) if v is None else "(%s as %s).%s" % (short(t[1], depth + 1), v, t[3])
    if k == "bin":
        return "(%s %s %s)" % (short(t[2], depth + 1), t[1], short(t[3], depth + 1))
    if k == "agg":
        return "%s::%s{%s}" % (t[1].split("::")[-1], t[2], ", ".join("%s:%s" % (n, short(v, depth + 1)) for n, v in t[3]))
    if k == "tuple":
        return "(%s)" % ", ".join(short(x, depth + 1) for x in t[1])
    if k == "call":
        return "%s(%s)" % (t[1].split("::")[-1] if isinstance(t[1], str) else t[1], ", ".join(short(x, depth + 1) for x in t[2]))
    if k == "eff":
        return "%s#%s" % (t[1], t[2])
    if k == "val":
        return "*%s" % short(t[1], depth + 1)
    if k == "obj":
        return short(t[1], depth + 1)
    if k == "ref":
        return "&%s" % short(t[1], depth + 1)
    if k == "pl":
        return "%s%s" % (short(t[1], depth + 1), "".join("." + str(s[-1]) for s in t[2]))
    if k == "discr":
        return "discr(%s)" % short(t[1], depth + 1)
    return "%s(%s)" % (k, ", ".join(short(x, depth + 1) for x in t[1:]))


def subterms(t):
    """all subterms, pre-order"""
    st = [t]
    while st:
        x = st.pop()
        if isinstance(x, tuple) and not x:
            continue
        yield x
        if isinstance(x, tuple):
            for y in x:
                if isinstance(y, tuple):
                    st.append(y)


def mentions(t, pred):
    for s in subterms(t):
        if pred(s):
            return True
    return False


# ---------------------------------------------------------------- facts

CMP_OPS = {"Lt", "Le", "Gt", "Ge", "Eq", "Ne"}


def _is_sub(t):
    return isinstance(t, tuple) and len(t) == 4 and t[0] == "bin" and t[1] == "Sub" and not _maybe_signed(t[2]) and not _maybe_signed(t[3])


def _minmax_other(m, x):
    """m = min/max(x, y) -> y"""
    if isinstance(m, tuple) and len(m) == 3 and m[0] in ("min", "max") and x in (m[1], m[2]) and m[1] != m[2]:
        return m[2] if m[1] == x else m[1]
    return None


_FLIP = {"Lt": "Gt", "Gt": "Lt", "Le": "Ge", "Ge": "Le", "Eq": "Eq", "Ne": "Ne"}


def norm_cmp(op, a, b):
    """equivalent simpler comparison (unsigned, checked arithmetic):
         (x - y) ==/!=/>  0   ->  x ==/!=/> y         (a checked subtraction that did not panic has x >= y)
         x ==/!= min(x, y)    ->  x <=/> y ;   min(x, y) < x -> y < x ;  dually for max"""
    for _ in range(4):
        if is_int(a) and not is_int(b):
            op, a, b = _FLIP[op], b, a
        if isinstance(a, tuple) and len(a) == 3 and a[0] == "satsub" and is_int(b) and b[1] == 0 \
                and not _maybe_signed(a[1]) and not _maybe_signed(a[2]):
            # x.saturating_sub(y) == 0  <=>  x <= y ;  != 0 / > 0  <=>  x > y
            if op in ("Eq", "Le"):
                op, a, b = "Le", a[1], a[2]
                continue
            if op in ("Ne", "Gt"):
                op, a, b = "Gt", a[1], a[2]
                continue
        if _is_sub(a) and is_int(b) and b[1] == 0:
            if op in ("Eq", "Ne", "Gt"):
                a, b = a[2], a[3]
                continue
            if op == "Le":
                op, a, b = "Eq", a[2], a[3]
                continue
        if _is_sub(a) and is_int(b) and b[1] == 1 and op in ("Lt", "Ge"):
            op, a, b = ("Eq" if op == "Lt" else "Ne"), a[2], a[3]
            continue
        done = True
        for x, m, flipped in ((a, b, False), (b, a, True)):
            y = _minmax_other(m, x)
            if y is None:
                continue
            o = _FLIP[op] if flipped else op       # now: x o m
            if m[0] == "min":
                if o == "Eq":
                    op, a, b = "Le", x, y
                elif o == "Ne" or o == "Gt":
                    op, a, b = "Gt", x, y
                else:
                    continue
            else:
                if o == "Eq":
                    op, a, b = "Ge", x, y
                elif o == "Ne" or o == "Lt":
                    op, a, b = "Lt", x, y
                else:
                    continue
            done = False
            break
        if done:
            break
    return op, a, b


def canon_cmp(op, a, b):
    """return (atom, polarity) with atom in {('lt',a,b), ('eq',a,b)} """
    op, a, b = norm_cmp(op, a, b)
    if op == "Lt":
        return ("lt", a, b), True
    if op == "Gt":
        return ("lt", b, a), True
    if op == "Le":
        return ("lt", b, a), False
    if op == "Ge":
        return ("lt", a, b), False
    if op == "Eq":
        x, y = sorted((a, b), key=repr)
        return ("eq", x, y), True
    if op == "Ne":
        x, y = sorted((a, b), key=repr)
        return ("eq", x, y), False
    raise ValueError(op)


def canon_bool(t):
    """canonical (atom, polarity) for a boolean term"""
    pol = True
    while True:
        if isinstance(t, tuple) and t[0] == "un" and t[1] == "Not":
            t = t[2]
            pol = not pol
            continue
        break
    if isinstance(t, tuple) and t[0] == "bin" and t[1] in CMP_OPS:
        atom, p = canon_cmp(t[1], t[2], t[3])
        return atom, (p if pol else not p)
    return ("truth", t), pol


class Facts:
    """Path condition in canonical syntactic form."""

    def __init__(self):
        self.atoms = {}       # atom -> bool
        self.variant = {}     # term -> variant name
        self.not_variant = {}  # term -> set(names)
        self.order = []       # insertion order of (atom, pol) for reporting

    def copy(self):
        f = Facts()
        f.atoms = dict(self.atoms)
        f.variant = dict(self.variant)
        f.not_variant = {k: set(v) for k, v in self.not_variant.items()}
        f.order = list(self.order)
        return f

    # -- deciding
    def decide_atom(self, atom, _depth=0):
        """True/False/None"""
        if atom in self.atoms:
            return self.atoms[atom]
        d = self._decide_atom(atom)
        if d is None and atom[0] in ("lt", "eq") and _depth < 2:
            # the same comparison in normal form ((x - y) < 1 is x == y, x == min(x, y) is x <= y, ...)
            a2, p2 = canon_cmp("Lt" if atom[0] == "lt" else "Eq", atom[1], atom[2])
            if a2 != atom:
                d2 = self.atoms.get(a2)
                if d2 is None:
                    d2 = self._decide_atom(a2)
                if d2 is not None:
                    d = d2 if p2 else (not d2)
        if d is None and _depth == 0 and atom[0] in ("lt", "eq"):
            # resolve min/max terms whose argument order the facts decide: max(thr, 1) is thr once thr != 0 is known
            a2 = self._resolve_minmax(atom)
            if a2 != atom:
                if a2[0] == "eq":
                    a2 = _eq_atom(a2[1], a2[2])
                d = self.decide_atom(a2, 1)
            if d is None:
                # ... and the other way round: a stored fact mentions the min/max, the query its resolved form
                for known, pol in self.order:
                    if known[0] == atom[0] and any(isinstance(x, tuple) and x and x[0] in ("min", "max") for x in subterms(known)):
                        k2 = self._resolve_minmax(known)
                        if k2[0] == "eq":
                            k2 = _eq_atom(k2[1], k2[2])
                        if k2 == atom:
                            return pol
        return d

    def _resolve_minmax(self, t):
        if not isinstance(t, tuple):
            return t
        if len(t) == 3 and t[0] in ("min", "max") and isinstance(t[1], tuple) and isinstance(t[2], tuple):
            x, y = self._resolve_minmax(t[1]), self._resolve_minmax(t[2])
            lt_xy = self.decide_atom(("lt", x, y), 1)
            lt_yx = self.decide_atom(("lt", y, x), 1)
            if lt_xy is True or lt_yx is False:       # x <= y
                return x if t[0] == "min" else y
            if lt_yx is True or lt_xy is False:       # y <= x
                return y if t[0] == "min" else x
            return (t[0], x, y)
        return tuple(self._resolve_minmax(x) if isinstance(x, tuple) else x for x in t)

    def _decide_atom(self, atom):
        k = atom[0]
        if k in ("lt", "eq"):
            a, b = atom[1], atom[2]
            if is_int(a) and is_int(b):
                return (a[1] < b[1]) if k == "lt" else (a[1] == b[1])
            if a == b:
                return k == "eq"
        if k == "lt":
            a, b = atom[1], atom[2]
            # integers: c < x  <=>  !(x < c+1)
            if is_int(a) and not is_int(b):
                o = self.atoms.get(("lt", b, Int(a[1] + 1)))
                if o is not None:
                    return not o
            if is_int(b) and not is_int(a):
                o = self.atoms.get(("lt", Int(b[1] - 1), a))
                if o is not None:
                    return not o
            # checked unsigned subtraction never exceeds its minuend: !(a < a - x)
            if isinstance(b, tuple) and b[0] == "bin" and b[1] == "Sub" and b[2] == a:
                return False
            # unsigned: nothing is below 0  (all compared quantities here are unsigned or lengths;
            # signed comparisons against 0 only occur on bracket counters, handled syntactically)
            if is_int(b) and b[1] == 0 and not _maybe_signed(a):
                return False
            if self.atoms.get(("lt", b, a)) is True:
                return False
            # x < y - k (checked unsigned subtraction, k >= 0)  =>  x < y  and  x + k < y
            if not is_int(b):
                for k in (1, 2):
                    if self.atoms.get(("lt", a, ("bin", "Sub", b, Int(k)))) is True:
                        return True
                if isinstance(a, tuple) and len(a) == 4 and a[0] == "bin" and a[1] == "Add" and is_int(a[3]) and 0 <= a[3][1] <= 2:
                    if self.atoms.get(("lt", a[2], ("bin", "Sub", b, a[3]))) is True:
                        return True
            # nothing (unsigned) is below a quantity known to be 0
            if not is_int(b) and not _maybe_signed(a) and not _maybe_signed(b) and self.known_zero(b):
                return False
            e = self.atoms.get(_eq_atom(a, b))
            if e is True:
                return False
            # a <= b and a != b  =>  a < b
            if e is False and self.atoms.get(("lt", b, a)) is False:
                return True
            # x < 1  <=>  x == 0 (unsigned)
            if is_int(b) and b[1] == 1 and not _maybe_signed(a):
                e0 = self.atoms.get(_eq_atom(a, Int(0)))
                if e0 is not None:
                    return e0
                z = self.atoms.get(("lt", Int(0), a))
                if z is not None:
                    return not z
            if is_int(a) and a[1] == 0 and not _maybe_signed(b):
                e0 = self.atoms.get(_eq_atom(b, Int(0)))
                if e0 is not None:
                    return not e0
        if k == "eq":
            a, b = atom[1], atom[2]
            if self.atoms.get(("lt", a, b)) is True or self.atoms.get(("lt", b, a)) is True:
                return False
            # x == 0 decided by 0 < x
            for x, y in ((a, b), (b, a)):
                if is_int(y) and y[1] == 0 and not _maybe_signed(x):
                    z = self.atoms.get(("lt", Int(0), x))
                    if z is not None:
                        return not z
        return None

    def decide(self, t):
        if is_int(t):
            return t[1] != 0
        atom, pol = canon_bool(t)
        d = self.decide_atom(atom)
        if d is None:
            return None
        return d if pol else (not d)

    def assume(self, t, value):
        """add `t == value` (t boolean term). Returns False if syntactically contradictory."""
        if is_int(t):
            return (t[1] != 0) == value
        atom, pol = canon_bool(t)
        want = value if pol else (not value)
        d = self.decide_atom(atom)
        if d is not None:
            return d == want
        self.atoms[atom] = want
        self.order.append((atom, want))
        return True

    def assume_variant(self, t, name):
        if isinstance(t, tuple) and t and t[0] == "agg":
            return t[2] == name      # a constructed value: nothing to record
        cur = self.variant.get(t)
        if cur is not None:
            return cur == name
        if name in self.not_variant.get(t, ()):
            return False
        self.variant[t] = name
        self.order.append((("variant", t, name), True))
        return True

    def known_zero(self, x):
        """is x known to be 0 (unsigned reasoning)"""
        if is_int(x):
            return x[1] == 0
        if self.atoms.get(_eq_atom(x, Int(0))) is True:
            return True
        if self.atoms.get(("lt", Int(0), x)) is False:
            return True
        if self.atoms.get(("lt", x, Int(1))) is True:
            return True
        return False

    def describe(self, limit=40):
        out = []
        for atom, pol in self.order[-limit:]:
            if atom[0] == "variant":
                out.append("%s is %s" % (short(atom[1]), atom[2]))
            elif atom[0] == "lt":
                out.append(("%s < %s" if pol else "%s >= %s") % (short(atom[1]), short(atom[2])))
            elif atom[0] == "eq":
                out.append(("%s == %s" if pol else "%s != %s") % (short(atom[1]), short(atom[2])))
            else:
                out.append(("%s" if pol else "!%s") % short(atom[1]))
        return out


def _eq_atom(a, b):
    x, y = sorted((a, b), key=repr)
    return ("eq", x, y)


def _maybe_signed(t):
    if not isinstance(t, tuple) or not t:
        return False
    if t[0] == "signed":
        return True
    if t[0] == "bin" and len(t) == 4:
        return _maybe_signed(t[2]) or _maybe_signed(t[3])
    if t[0] in ("un", "cast") and len(t) == 3:
        return _maybe_signed(t[2])
    return False


# ---------------------------------------------------------------- affine forms

class Affine:
    """sum(coef*atom) + const with Fraction coefficients."""

    __slots__ = ("c", "k")

    def __init__(self, c=None, k=0):
        self.c = dict(c or {})
        self.k = Fraction(k)

    def copy(self):
        return Affine(self.c, self.k)

    def add(self, other, scale=1):
        r = self.copy()
        for a, v in other.c.items():
            nv = r.c.get(a, 0) + v * scale
            if nv == 0:
                r.c.pop(a, None)
            else:
                r.c[a] = nv
        r.k += other.k * scale
        return r

    def scale(self, s):
        return Affine({a: v * s for a, v in self.c.items()} if s != 0 else {}, self.k * s)

    def is_zero(self):
        return not self.c and self.k == 0

    def is_const(self):
        return not self.c

    def __repr__(self):
        parts = []
        for a, v in sorted(self.c.items(), key=lambda kv: repr(kv[0])):
            parts.append(("%s*" % v if v != 1 else "") + short(a))
        if self.k != 0 or not parts:
            parts.append(str(self.k))
        return " + ".join(parts)


def affine(t):
    """decompose an integer term"""
    if is_int(t):
        return Affine(k=t[1])
    if isinstance(t, tuple):
        if t[0] == "bin" and t[1] in ("Add", "AddUnchecked", "AddWrapping"):
            return affine(t[2]).add(affine(t[3]))
        if t[0] == "bin" and t[1] in ("Sub", "SubUnchecked", "SubWrapping"):
            return affine(t[2]).add(affine(t[3]), -1)
        if t[0] == "bin" and t[1] in ("Mul",):
            a, b = affine(t[2]), affine(t[3])
            if a.is_const():
                return b.scale(a.k)
            if b.is_const():
                return a.scale(b.k)
        if t[0] == "cast":
            return affine(t[2])
    return Affine({t: Fraction(1)})


class LinSys:
    """Known linear equalities (affine form = 0); reduces forms modulo their span."""

    def __init__(self):
        self.rows = []  # list of (pivot_atom, Affine normalised with pivot coef 1)

    def copy(self):
        r = LinSys()
        r.rows = list(self.rows)
        return r

    def reduce(self, f):
        f = f.copy()
        for piv, row in self.rows:
            c = f.c.get(piv)
            if c:
                f = f.add(row, -c)
        return f

    def add_eq(self, f):
        """add f = 0; returns False if inconsistent (nonzero constant = 0)"""
        f = self.reduce(f)
        if f.is_zero():
            return True
        if f.is_const():
            return False
        # choose pivot: prefer the most complex atom so simple atoms survive as representatives
        piv = max(f.c.keys(), key=lambda a: (len(repr(a)), repr(a)))
        row = f.scale(1 / f.c[piv])
        # eliminate piv from existing rows
        new_rows = []
        for p, r in self.rows:
            c = r.c.get(piv)
            if c:
                r = r.add(row, -c)
            new_rows.append((p, r))
        new_rows.append((piv, row))
        self.rows = new_rows
        return True


def linsys_from_facts(facts):
    ls = LinSys()
    for atom, pol in facts.order:
        if atom[0] == "eq" and pol is True:
            ls.add_eq(affine(atom[1]).add(affine(atom[2]), -1))
        elif atom[0] == "lt" and pol is False:
            # !(0 < x) => x = 0 ; !(x < 1)... only the zero case is an equality
            a, b = atom[1], atom[2]
            if is_int(a) and a[1] == 0:
                ls.add_eq(affine(b))
            # !(a < b) and !(b < a)  =>  a = b
            if facts.atoms.get(("lt", b, a)) is False:
                ls.add_eq(affine(a).add(affine(b), -1))
        elif atom[0] == "lt" and pol is True:
            a, b = atom[1], atom[2]
            if is_int(b) and b[1] == 1:
                ls.add_eq(affine(a))
    return ls


MINMAX = ("min", "max", "satsub")


def _innermost_minmax(t):
    """a min/max/saturating_sub subterm of t none of whose arguments contains another one (splitting inside-out
    lets the facts decide the outer ones)"""
    found = None
    for s in subterms(t):
        if isinstance(s, tuple) and s and s[0] in MINMAX:
            inner = [x for arg in s[1:] for x in subterms(arg)
                     if isinstance(x, tuple) and x and x[0] in MINMAX]
            if not inner:
                return s
            found = found or s
    return found


def _find_minmax(f):
    for a in f.c:
        s = _innermost_minmax(a)
        if s is not None:
            return s
    return None


def _find_minmax_facts(facts):
    """min/max/saturating_sub terms hidden in equality facts (they may have been eliminated from the residual)"""
    for atom, pol in facts.order:
        is_eq = (atom[0] == "eq" and pol is True) or \
            (atom[0] == "lt" and pol is False and is_int(atom[1]) and atom[1][1] == 0) or \
            (atom[0] == "lt" and pol is True and is_int(atom[2]) and atom[2][1] == 1)
        if is_eq:
            for s in subterms(atom):
                if isinstance(s, tuple) and s and s[0] in MINMAX:
                    return s
    return None


def subst(t, old, new):
    if t == old:
        return new
    if isinstance(t, tuple):
        return tuple(subst(x, old, new) if isinstance(x, tuple) else x for x in t)
    return t


def subst_affine(f, old, new):
    r = Affine(k=f.k)
    for a, v in f.c.items():
        r = r.add(affine(subst(a, old, new)), v)
    return r


def _resolve_variants_term(t, facts):
    """Option::unwrap_or(x, d) whose variant the path condition knows: the payload, or d"""
    if not isinstance(t, tuple):
        return t
    t2 = tuple(_resolve_variants_term(x, facts) if isinstance(x, tuple) else x for x in t)
    if t2 and t2[0] == "unwrap_or" and len(t2) == 3:
        v = facts.variant.get(t2[1])
        if v == "Some":
            return ("field", t2[1], "Some", "0")
        if v == "None":
            return t2[2]
    return t2


def resolve_variants(form, facts):
    if not facts.variant or not any("unwrap_or" in repr(a) for a in form.c):
        return form
    r = Affine(k=form.k)
    for a, v in form.c.items():
        r = r.add(affine(_resolve_variants_term(a, facts)), v)
    return r


def prove_zero(form, facts, extra_eqs=(), depth=0):
    """Is `form` == 0 under the facts?  Case-splits min/max/saturating_sub atoms (both orders unless
    the facts decide one).  Returns (ok, witness_description)."""
    form = resolve_variants(form, facts)
    ls = linsys_from_facts(facts)
    for e in extra_eqs:
        ls.add_eq(e)
    r = ls.reduce(form)
    if r.is_zero():
        return True, None
    mm = (_find_minmax(r) or _find_minmax(form) or _find_minmax_facts(facts)) if depth < 5 else None
    if mm is None:
        return False, "residual %r" % r
    a, b = mm[1], mm[2]
    cases = []
    lt = facts.decide_atom(("lt", a, b))      # a < b ?
    gt = facts.decide_atom(("lt", b, a))      # b < a ?
    # case 1: a <= b ; case 2: b < a
    if mm[0] == "min":
        v1, v2 = a, b
    elif mm[0] == "max":
        v1, v2 = b, a
    else:  # satsub(a,b) = a-b if b<=a else 0
        v1, v2 = Int(0), ("bin", "Sub", a, b)
    poss = []
    if gt is not True:   # a <= b possible
        poss.append((v1, ("lt", b, a), False))
    if gt is not False and lt is not True:  # b < a possible
        poss.append((v2, ("lt", b, a), True))
    for val, atom, pol in poss:
        f2 = facts.copy()
        if f2.decide_atom(atom) is None:
            f2.atoms[atom] = pol
            f2.order.append((atom, pol))
        form2 = subst_affine(form, mm, val)
        eqs2 = [subst_affine(e, mm, val) for e in extra_eqs]
        if pol is False and lt is False:
            # a <= b assumed and a >= b known: a == b
            eqs2.append(affine(a).add(affine(b), -1))
        f3 = _subst_facts(f2, mm, val)
        if getattr(f3, "contradictory", False):
            continue
        ok, why = prove_zero(form2, f3, eqs2, depth + 1)
        if not ok:
            return False, "case %s=%s: %s" % (short(mm), short(val), why)
    return True, None


def _subst_facts(facts, old, new):
    f = Facts()
    f.variant = dict(facts.variant)
    f.not_variant = {k: set(v) for k, v in facts.not_variant.items()}
    for atom, pol in facts.order:
        if atom[0] == "variant":
            f.order.append((atom, pol))
            continue
        a2 = subst(atom, old, new)
        if a2[0] == "eq":
            a2 = _eq_atom(a2[1], a2[2])
        if a2 != atom or a2 in f.atoms:
            d = f.decide_atom(a2)
            if d is not None and d != pol:
                f.contradictory = True     # the case assumed is impossible under the path condition
        f.atoms[a2] = pol
        f.order.append((a2, pol))
    return f


def prove_pos(form, facts, depth=0):
    """Is `form` > 0 under the facts?  (single positive atom known > 0, or positive constant, after reduction;
    min/max atoms are case-split like prove_zero)"""
    ls = linsys_from_facts(facts)
    r = ls.reduce(form)
    if r.is_const():
        return (r.k > 0), "constant %s" % r.k
    pos_atoms = [(a, v) for a, v in r.c.items()]
    if all(v > 0 for a, v in pos_atoms) and r.k >= 0:
        # every atom is unsigned; positive if at least one atom is known > 0
        for a, v in pos_atoms:
            if facts.decide_atom(("lt", Int(0), a)) is True:
                return True, None
    mm = _find_minmax(r) if depth < 5 else None
    if mm is None:
        return False, "residual %r is not known to be positive" % r
    a, b = mm[1], mm[2]
    gt = facts.decide_atom(("lt", b, a))
    lt = facts.decide_atom(("lt", a, b))
    if mm[0] == "min":
        v1, v2 = a, b
    elif mm[0] == "max":
        v1, v2 = b, a
    else:
        v1, v2 = Int(0), ("bin", "Sub", a, b)
    poss = []
    if gt is not True:
        poss.append((v1, ("lt", b, a), False))
    if gt is not False and lt is not True:
        poss.append((v2, ("lt", b, a), True))
    for val, atom, pol in poss:
        f2 = facts.copy()
        if f2.decide_atom(atom) is None:
            f2.atoms[atom] = pol
            f2.order.append((atom, pol))
        f3 = _subst_facts(f2, mm, val)
        if getattr(f3, "contradictory", False):
            continue
        ok, why = prove_pos(subst_affine(form, mm, val), f3, depth + 1)
        if not ok:
            return False, "case %s=%s: %s" % (short(mm), short(val), why)
    return True, None


def prove_nonneg(form, facts, depth=0):
    """Is `form` >= 0 under the facts?  (zero, or after reduction only unsigned atoms with positive coefficients and a
    non-negative constant; min/max/saturating_sub atoms are case-split)"""
    ok, _ = prove_zero(form, facts)
    if ok:
        return True, None
    ls = linsys_from_facts(facts)
    r = ls.reduce(form)
    if r.is_const():
        return (r.k >= 0), "constant %s" % r.k
    if all(v > 0 and not _maybe_signed(a) for a, v in r.c.items()) and r.k >= 0:
        return True, None
    mm = (_find_minmax(r) or _find_minmax(form)) if depth < 5 else None
    if mm is None:
        return False, "residual %r is not known to be non-negative" % r
    a, b = mm[1], mm[2]
    gt = facts.decide_atom(("lt", b, a))
    lt = facts.decide_atom(("lt", a, b))
    if mm[0] == "min":
        v1, v2 = a, b
    elif mm[0] == "max":
        v1, v2 = b, a
    else:
        v1, v2 = Int(0), ("bin", "Sub", a, b)
    poss = []
    if gt is not True:
        poss.append((v1, ("lt", b, a), False))
    if gt is not False and lt is not True:
        poss.append((v2, ("lt", b, a), True))
    for val, atom, pol in poss:
        f2 = facts.copy()
        if f2.decide_atom(atom) is None:
            f2.atoms[atom] = pol
            f2.order.append((atom, pol))
        f3 = _subst_facts(f2, mm, val)
        if getattr(f3, "contradictory", False):
            continue
        ok, why = prove_nonneg(subst_affine(form, mm, val), f3, depth + 1)
        if not ok:
            return False, "case %s=%s: %s" % (short(mm), short(val), why)
    return True, None


def get_field(t, name, variant=None):
    """field `name` of a struct-like term: constructed aggregate, functional update chain, or projection"""
    while isinstance(t, tuple):
        if t[0] == "agg":
            d = dict(t[3])
            return d.get(name)
        if t[0] == "upd":
            if t[2][0] == "f" and t[2][2] == name:
                return t[3]
            t = t[1]
            continue
        break
    return ("field", t, variant, name)


def unsign(t):
    """remove the ('signed', x) type tags (they only matter to the comparison rules in Facts)"""
    if isinstance(t, tuple):
        if len(t) == 2 and t[0] == "signed":
            return unsign(t[1])
        return tuple(unsign(x) if isinstance(x, tuple) else x for x in t)
    return t
