"""E1 - pathwalk: term-valued, path-sensitive dataflow over exported MIR.

Every CFG path that is not syntactically contradictory is walked (no feasibility solving).
Crate-local callees are inlined up to a depth bound; loops are analysed per iteration (loop-carried
locals are havocked at the header; a path ends at the back edge).  The result is a list of path
summaries: end kind, return term, facts, ordered effect trace.
"""
import re

from .terms import (Facts, Int, TRUE, FALSE, UNIT, agg, is_int, short, CMP_OPS, _maybe_signed)


class Budget(Exception):
    pass


class Undecided(Exception):
    pass


def cname(path):
    """strip turbofish / generic args from a def path: a::B::<T>::f -> a::B::f"""
    out = []
    depth = 0
    i = 0
    while i < len(path):
        ch = path[i]
        if ch == "<" and (i == 0 or path[i - 1] == ":" or depth > 0 or True):
            # generic list (either ::<..> or Type<..>); qualified paths `<T as Tr>::f` are kept verbatim
            if i == 0 or (depth == 0 and not (i >= 2 and path[i - 2:i] == "::") and not path[i - 1].isalnum() and path[i - 1] not in "_>"):
                # leading '<' of a qualified path
                j = _match_angle(path, i)
                out.append(path[i:j + 1])
                i = j + 1
                continue
            j = _match_angle(path, i)
            i = j + 1
            if out and out[-1] == ":" and len(out) >= 2 and out[-2] == ":" and i < len(path) and path[i:i + 2] == "::":
                # a::<T>::b  -> drop the '::' we already emitted before '<'
                out.pop()
                out.pop()
            continue
        out.append(ch)
        i += 1
    return "".join(out)


def _match_angle(s, i):
    depth = 0
    j = i
    while j < len(s):
        if s[j] == "<":
            depth += 1
        elif s[j] == ">" and not (j > 0 and s[j - 1] == "-"):
            depth -= 1
            if depth == 0:
                return j
        j += 1
    return len(s) - 1


class Frame:
    __slots__ = ("body", "fid", "locals", "ret_place", "ret_block", "caller", "headers", "site", "depth", "synth", "post",
                 "utag0", "utag", "ucount")

    def __init__(self, body, fid, caller, ret_place, ret_block, site, depth):
        self.body = body
        self.fid = fid
        self.locals = {}
        self.ret_place = ret_place
        self.ret_block = ret_block
        self.caller = caller
        self.headers = set()
        self.site = site
        self.depth = depth
        self.synth = {}
        self.post = None
        # unrolled-iteration tag: distinguishes the value terms of effects / impure calls issued from the same call site
        # in different iterations of an unrolled loop (and in callees inlined from there)
        self.utag0 = ""
        self.utag = ""
        self.ucount = 0

    def copy(self):
        f = Frame(self.body, self.fid, self.caller, self.ret_place, self.ret_block, self.site, self.depth)
        f.locals = dict(self.locals)
        f.headers = set(self.headers)
        f.synth = dict(self.synth)
        f.post = self.post
        f.utag0, f.utag, f.ucount = self.utag0, self.utag, self.ucount
        return f


class State:
    def __init__(self):
        self.frames = {}
        self.top = None
        self.heap = {}
        self.facts = Facts()
        self.trace = []
        self.nfid = 0
        self.bb = 0
        self.fresh = 0
        self.flags = set()

    def copy(self):
        s = State()
        s.frames = {k: v.copy() for k, v in self.frames.items()}
        s.top = self.top
        s.heap = dict(self.heap)
        s.facts = self.facts.copy()
        s.trace = list(self.trace)
        s.nfid = self.nfid
        s.bb = self.bb
        s.fresh = self.fresh
        s.flags = set(self.flags)
        return s

    @property
    def frame(self):
        return self.frames[self.top]


class PathResult:
    def __init__(self, kind, value, state, detail=None):
        self.kind = kind        # 'return' | 'backedge' | 'unreachable' | 'diverge'
        self.value = value
        self.facts = state.facts
        self.trace = state.trace
        self.detail = detail
        self.flags = state.flags
        self.state = state

    def events(self, kind=None, name=None):
        for e in self.trace:
            if kind is not None and e[0] != kind:
                continue
            if name is not None and e[1] != name:
                continue
            yield e

    def since_loop(self):
        """trace suffix after the last loop-header marker (the current iteration)"""
        idx = -1
        for i, e in enumerate(self.trace):
            if e[0] == "loop":
                idx = i
        return self.trace[idx + 1:]


PURE_NAMES = {
    "unwrap_or", "unwrap_or_default", "unwrap_or_else", "min", "max", "saturating_sub", "saturating_add",
    "len", "is_empty", "eq", "ne", "lt", "le", "gt", "ge", "cmp", "partial_cmp", "as_str", "as_bytes",
    "to_string", "to_uppercase", "to_lowercase", "starts_with", "ends_with", "find", "rfind", "split",
    "splitn", "parse", "get", "contains_key", "iter", "map", "collect", "into_iter", "chars",
    "char_indices", "filter", "and_then", "ok", "ok_or", "ok_or_else", "map_err", "map_or", "map_or_else", "join",
    "as_ref", "borrow", "to_owned", "to_vec", "format", "from_str", "as_millis", "trim", "enumerate",
    "opposite", "default", "with_capacity", "new", "from", "into", "index", "is_char_boundary",
    "wrapping_add", "wrapping_sub", "checked_add", "checked_sub", "abs", "sum", "count", "rev",
    "value", "key", "cloned", "copied", "unwrap", "expect", "then", "then_some", "is_ascii_digit",
}


SIGNED_TYS = {"i8", "i16", "i32", "i64", "i128", "isize"}
_O, _R = "std::option::Option", "std::result::Result"
COMBINATORS = {
    "std::option::Option::map": (_O, "Some", "None", "map"),
    "std::option::Option::and_then": (_O, "Some", "None", "and_then"),
    "std::option::Option::ok_or_else": (_O, "Some", "None", "ok_or_else"),
    "std::option::Option::ok_or": (_O, "Some", "None", "ok_or"),
    "std::option::Option::unwrap_or_else": (_O, "Some", "None", "unwrap_or_else"),
    "std::option::Option::map_or": (_O, "Some", "None", "map_or"),
    "std::option::Option::map_or_else": (_O, "Some", "None", "map_or_else"),
    "std::result::Result::map_or_else": (_R, "Ok", "Err", "map_or_else"),
    "std::result::Result::map_or": (_R, "Ok", "Err", "map_or"),
    "std::result::Result::map": (_R, "Ok", "Err", "map"),
    "std::result::Result::map_err": (_R, "Ok", "Err", "map_err"),
    "std::result::Result::and_then": (_R, "Ok", "Err", "and_then"),
    "std::result::Result::ok": (_R, "Ok", "Err", "ok"),
    "std::result::Result::unwrap_or_else": (_R, "Ok", "Err", "unwrap_or_else"),
    "std::result::Result::or_else": (_R, "Ok", "Err", "or_else"),
    "std::option::Option::or_else": (_O, "Some", "None", "or_else"),
    "std::option::Option::filter": (_O, "Some", "None", "filter"),
}


class Walker:
    def __init__(self, db, max_depth=4, max_paths=20000, max_steps=4_000_000):
        self.db = db
        self.max_depth = max_depth
        self.max_paths = max_paths
        self.max_steps = max_steps
        self.effect_of = lambda callee, args, state, walker: None   # -> name or None
        self.no_inline = lambda defp: False
        self.custom_model = lambda cn, callee, args, st, walker: None
        self.on_loop = None
        self.on_heap_write = None
        self.results = []
        self.steps = 0
        self.stats = {"paths": 0, "inlined": 0, "opaque": {}, "effects": 0, "max_depth_hits": 0, "blocks": 0}
        self._havoc_cache = {}

    # ------------------------------------------------------------------ entry
    def walk(self, body, args=None):
        self.results = []
        st = State()
        fr = Frame(body, 0, None, None, None, (), 0)
        st.nfid = 1
        st.frames[0] = fr
        st.top = 0
        st.bb = 0
        for i in range(1, body.argc + 1):
            if args is not None and i - 1 < len(args) and args[i - 1] is not None:
                fr.locals[i] = args[i - 1]
            else:
                fr.locals[i] = self.param_term(body, i)
        self._run([st])
        return self.results

    @staticmethod
    def param_term(body, i):
        ty = body.locals[i]["ty"]
        if ty.startswith("&mut "):
            return ("ref", ("pl", ("obj", ("param", i)), ()), True)
        if ty.startswith("&"):
            return ("ref", ("pl", ("obj", ("param", i)), ()), False)
        return ("param", i)

    # ------------------------------------------------------------------ main loop
    def _run(self, work):
        while work:
            st = work.pop()
            try:
                self._run_path(st, work)
            except _EndPath:
                pass

    def _finish(self, kind, value, st, detail=None):
        self.results.append(PathResult(kind, value, st, detail))
        self.stats["paths"] += 1
        if len(self.results) > self.max_paths:
            raise Budget("more than %d paths" % self.max_paths)
        raise _EndPath()

    def _run_path(self, st, work):
        while True:
            self.steps += 1
            if self.steps > self.max_steps:
                raise Budget("more than %d steps" % self.max_steps)
            fr = st.frame
            body = fr.body
            bb = st.bb
            self.stats["blocks"] += 1
            # loop header handling
            loops = body.loops()
            if bb in loops and self._unrolled_loop(fr, body, bb, loops[bb]):
                fr.ucount += 1
                fr.utag = "%s#%d" % (fr.utag0, fr.ucount)
            elif bb in loops:
                key = (fr.site, body.defp, bb)
                if bb in fr.headers:
                    self._finish("backedge", None, st, detail=key)
                fr.headers.add(bb)
                pre = {}
                for l in self._havoc_set(body, bb):
                    if l in fr.locals:
                        pre[l] = fr.locals[l]
                    fr.locals[l] = ("havoc", self._site_str(key), l)
                for pj in self._loop_heap_places(body, bb):
                    try:
                        pl = self._place(st, fr, pj)
                    except Exception:
                        st.heap = {}
                        break
                    if pl[1][0] != "local":
                        exact = all(isinstance(e, tuple) and e and e[0] == "f" for e in pl[2]) and len(pl[2]) > 0
                        if exact and (pl[1], pl[2]) in st.heap:
                            pre[("heap", pl[1], pl[2])] = st.heap[(pl[1], pl[2])]
                        for hk in list(st.heap.keys()):
                            r2, p2 = hk
                            if r2 == pl[1] and (p2[:len(pl[2])] == pl[2] or pl[2][:len(p2)] == p2):
                                del st.heap[hk]
                        if exact:
                            # a field written inside the loop is loop-carried: unknown at the header (not its pre-loop value)
                            st.heap[(pl[1], pl[2])] = ("havoc", self._site_str(key), ("heap", pl[1], pl[2]))
                st.trace.append(("loop", self._site_str(key), pre, body.defp))
                if self.on_loop is not None:
                    self.on_loop(st, fr, self._site_str(key), pre)
            blk = body.blocks[bb]
            for s in blk["stmts"]:
                self._stmt(st, fr, s)
            t = blk["term"]
            k = t["k"]
            if k == "goto":
                st.bb = t["target"]
            elif k == "drop":
                st.bb = t["target"]
            elif k == "return":
                val = fr.locals.get(0, UNIT)
                if fr.caller is None:
                    self._finish("return", val, st)
                # pop frame
                caller = st.frames[fr.caller]
                del st.frames[fr.fid]
                st.top = caller.fid
                if fr.post is not None:
                    val = fr.post(val, st) if getattr(fr.post, "wants_state", False) else fr.post(val)
                    if isinstance(val, tuple) and val and val[0] == "__backedge__":
                        # synthetic loop body (closure applied by for_each / try_for_each / find_map): one iteration ends here
                        self._finish("backedge", None, st, detail=val[1])
                    if isinstance(val, tuple) and val and val[0] == "__prune__":
                        self._finish("unreachable", None, st, detail="synthetic alternative contradicts the closure's result")
                    if isinstance(val, tuple) and val and val[0] == "__forkbool__":
                        # the closure returned a boolean that selects between two results (Option::filter, ...)
                        _, cond, yes, no = val
                        d = st.facts.decide(cond)
                        if d is True:
                            val = yes
                        elif d is False:
                            val = no
                        else:
                            s2 = st.copy()
                            if s2.facts.assume(cond, False) and fr.ret_block is not None:
                                self._write(s2, fr.ret_place, no)
                                s2.bb = fr.ret_block
                                work.append(s2)
                            if not st.facts.assume(cond, True):
                                self._finish("unreachable", None, st, detail="contradictory filter result")
                            val = yes
                    if isinstance(val, tuple) and val and val[0] == "__then__":
                        # continuation: the model schedules the next closure application into the same destination
                        val[1](st, caller, fr.ret_place, fr.ret_block, fr.site)
                        continue
                self._write(st, fr.ret_place, val)
                if fr.ret_block is None:
                    self._finish("diverge", None, st)
                st.bb = fr.ret_block
            elif k == "unreachable":
                self._finish("unreachable", None, st)
            elif k == "assert":
                cond = self._operand(st, fr, t["cond"])
                ops = [self._operand(st, fr, o) for o in t["ops"]]
                site = self._site(fr, bb)
                st.trace.append(("assert", t["msg"], tuple(ops), site, len(st.facts.order), t["span"], cond, t["expected"]))
                ok = st.facts.assume(cond, t["expected"])
                if not ok:
                    # the assert is known to fail on this path
                    self._finish("panic", None, st, detail=("assert", t["msg"], t["span"]))
                st.bb = t["target"]
            elif k == "switch":
                self._switch(st, fr, t, work)
            elif k == "call":
                self._call(st, fr, bb, t, work)
            elif k in ("resume", "terminate"):
                self._finish("unwind", None, st)
            else:
                self._finish("diverge", None, st, detail=k)

    # ------------------------------------------------------------------ loops
    def _unrolled_loop(self, fr, body, header, blocks):
        """a `for` loop whose iterator is a literal array's IntoIter: `next(&mut it)` in the loop with `it` holding a
        known element list.  Such a loop is walked iteration by iteration with concrete elements."""
        for b in blocks:
            t = body.blocks[b]["term"]
            if t["k"] != "call" or not t.get("callee") or t["callee"]["name"] != "next" or t["callee"].get("trait") != "std::iter::Iterator":
                continue
            if len(t["args"]) != 1 or t["args"][0]["k"] not in ("move", "copy"):
                continue
            # the argument is a fresh `&mut it` temporary assigned in the same block
            tmp = t["args"][0]["place"]["l"]
            refs = {s["place"]["l"]: s["rv"]["place"] for s in body.blocks[b]["stmts"]
                    if s["k"] == "assign" and not s["place"]["p"] and s["rv"]["k"] == "ref"}
            for _ in range(4):
                pl = refs.get(tmp)
                if pl is None:
                    break
                if not pl["p"]:
                    cur = fr.locals.get(pl["l"])
                    if isinstance(cur, tuple) and cur and cur[0] == "arriter":
                        return True
                    break
                if len(pl["p"]) == 1 and pl["p"][0]["k"] == "deref":
                    tmp = pl["l"]       # `&mut *r`: a reborrow of r
                    continue
                break
        return False

    def _havoc_set(self, body, header):
        key = (body.defp, header)
        if key in self._havoc_cache:
            return self._havoc_cache[key][0]
        blocks = body.loops()[header]
        hs = set()
        heap = False
        for b in blocks:
            blk = body.blocks[b]
            for s in blk["stmts"]:
                if s["k"] in ("assign", "setdiscr"):
                    pl = s["place"]
                    if any(p["k"] == "deref" for p in pl["p"]):
                        heap = True
                    else:
                        hs.add(pl["l"])
                    if s["k"] == "assign":
                        rv = s["rv"]
                        if rv["k"] == "ref" and rv["mut"]:
                            rp = rv["place"]
                            if any(p["k"] == "deref" for p in rp["p"]):
                                heap = True
                            else:
                                hs.add(rp["l"])
            t = blk["term"]
            if t["k"] == "call":
                d = t["dest"]
                if any(p["k"] == "deref" for p in d["p"]):
                    heap = True
                else:
                    hs.add(d["l"])
        self._havoc_cache[key] = (sorted(hs), heap)
        return self._havoc_cache[key][0]

    def _loop_heap_places(self, body, header):
        """MIR places (json) written or mutably borrowed through a deref inside the loop"""
        key = ("hp", body.defp, header)
        if key in self._havoc_cache:
            return self._havoc_cache[key]
        out = []
        for b in body.loops()[header]:
            blk = body.blocks[b]
            for s in blk["stmts"]:
                if s["k"] in ("assign", "setdiscr"):
                    if any(p["k"] == "deref" for p in s["place"]["p"]):
                        out.append(s["place"])
                    if s["k"] == "assign" and s["rv"]["k"] == "ref" and s["rv"]["mut"]:
                        if any(p["k"] == "deref" for p in s["rv"]["place"]["p"]):
                            out.append(s["rv"]["place"])
            t = blk["term"]
            if t["k"] == "call" and any(p["k"] == "deref" for p in t["dest"]["p"]):
                out.append(t["dest"])
        self._havoc_cache[key] = out
        return out

    # ------------------------------------------------------------------ places
    def _site(self, fr, bb):
        return fr.site + ((fr.body.defp, bb),)

    @staticmethod
    def _site_str(site):
        if isinstance(site, tuple) and len(site) == 3 and isinstance(site[1], str) and isinstance(site[0], tuple):
            # loop key: header block of a body, qualified by the inline call chain (distinct inlinings are distinct loops)
            chain = "<-".join("%s@bb%d" % (d, b) for d, b in reversed(site[0]))
            return "%s@bb%d%s" % (site[1], site[2], ("<-" + chain) if chain else "")
        return "<-".join("%s@bb%d" % (d, b) for d, b in reversed(site))

    def _place(self, st, fr, pj):
        """normalise a MIR place to ('pl', root, path)"""
        root = ("local", fr.fid, pj["l"])
        path = ()
        variant = None
        for p in pj["p"]:
            k = p["k"]
            if k == "deref":
                v = self._read(st, ("pl", root, path))
                if isinstance(v, tuple) and v[0] == "ref":
                    _, r2, p2 = v[1]
                    root, path = r2, p2
                else:
                    root, path = ("obj", ("deref", v)), ()
                variant = None
            elif k == "downcast":
                variant = p["name"] if p["name"] is not None else "#%d" % p["v"]
            elif k == "field":
                v = variant if variant is not None else None
                if v is None and p.get("variant") is not None and p.get("adt") is not None:
                    a = self.db.adts.get(p["adt"])
                    if a is not None and a["kind"] == "enum":
                        v = p["variant"]
                path = path + (("f", v, p.get("name", str(p["i"]))),)
                variant = None
            elif k == "index":
                iv = fr.locals.get(p["l"], ("uninit", fr.fid, p["l"]))
                path = path + (("idx", iv),)
            elif k == "cindex":
                path = path + (("cidx", p["offset"], p["from_end"]),)
            elif k == "subslice":
                path = path + (("sub", p["from"], p["to"], p["from_end"]),)
            else:
                pass
        return ("pl", root, path)

    def _read(self, st, pl):
        _, root, path = pl
        if root[0] == "local":
            fr = st.frames.get(root[1])
            if fr is None:
                base = ("dangling", root)
            else:
                base = fr.locals.get(root[2])
                if base is None:
                    base = ("uninit", root[1], root[2])
            return self._proj(base, path)
        if root[0] == "obj" and isinstance(root[1], tuple) and root[1][0] == "deref" and isinstance(root[1][1], tuple) \
                and root[1][1][0] == "refval" and (root, ()) not in st.heap and not any(k[0] == root for k in st.heap):
            # `*r` where r is a by-value reference to a known value (promoted constant, borrowed temporary)
            return self._proj(root[1][1][1], path)
        # abstract object: look for the longest overlay prefix
        for k in range(len(path), -1, -1):
            key = (root, path[:k])
            if key in st.heap:
                return self._proj(st.heap[key], path[k:])
        return self._proj(("val", root), path)

    def _proj(self, t, path):
        for step in path:
            t = self._proj1(t, step)
        return t

    def _proj1(self, t, step):
        if step[0] == "f":
            _, variant, name = step
            if isinstance(t, tuple):
                if t[0] == "agg":
                    if variant is None or t[2] == variant or t[2] is None:
                        d = dict(t[3])
                        if name in d:
                            return d[name]
                    else:
                        return ("bottom", "variant-mismatch", t[2], variant)
                if t[0] == "tuple" and name.isdigit() and int(name) < len(t[1]):
                    return t[1][int(name)]
                if t[0] == "upd":
                    if t[2] == step:
                        return t[3]
                    return self._proj1(t[1], step)
            return ("field", t, variant, name)
        if step[0] == "idx":
            return ("index", t, step[1])
        if step[0] == "cidx":
            if isinstance(t, tuple) and t[0] == "array" and not step[2] and step[1] < len(t[1]):
                return t[1][step[1]]
            return ("cindex", t, step[1], step[2])
        return ("proj", t, step)

    def _write(self, st, pl, val):
        if pl is None:
            return
        _, root, path = pl
        if root[0] == "local":
            fr = st.frames.get(root[1])
            if fr is None:
                return
            if not path:
                fr.locals[root[2]] = val
            else:
                base = fr.locals.get(root[2], ("uninit", root[1], root[2]))
                fr.locals[root[2]] = self._upd(base, path, val)
            return
        # abstract object
        if self.on_heap_write is not None:
            self.on_heap_write(st, pl, val, self)
        for key in list(st.heap.keys()):
            r2, p2 = key
            if r2 == root and (p2[:len(path)] == path or path[:len(p2)] == p2):
                if len(p2) < len(path):
                    # writing inside an overlaid aggregate
                    st.heap[key] = self._upd(st.heap[key], path[len(p2):], val)
                    return
                del st.heap[key]
        st.heap[(root, path)] = val

    def _upd(self, base, path, val):
        if not path:
            return val
        step = path[0]
        if step[0] == "f" and isinstance(base, tuple):
            if base[0] == "agg" and (step[1] is None or step[1] == base[2]):
                fields = list(base[3])
                for i, (n, v) in enumerate(fields):
                    if n == step[2]:
                        fields[i] = (n, self._upd(v, path[1:], val))
                        return ("agg", base[1], base[2], tuple(fields))
            if base[0] == "tuple" and step[2].isdigit() and int(step[2]) < len(base[1]):
                els = list(base[1])
                els[int(step[2])] = self._upd(els[int(step[2])], path[1:], val)
                return ("tuple", tuple(els))
        inner = self._upd(self._proj1(base, step), path[1:], val)
        return ("upd", base, step, inner)

    # ------------------------------------------------------------------ operands / rvalues
    def _operand(self, st, fr, o):
        k = o["k"]
        if k in ("copy", "move"):
            v = self._read(st, self._place(st, fr, o["place"]))
            pj = o["place"]
            ty = pj["p"][-1].get("ty") if pj["p"] and pj["p"][-1]["k"] == "field" else (fr.body.locals[pj["l"]]["ty"] if not pj["p"] else None)
            if ty in SIGNED_TYS and isinstance(v, tuple) and v[0] in ("havoc", "param", "field", "call", "eff", "index", "cindex", "mut", "upd", "unwrap_or"):
                return ("signed", v)
            return v
        if k == "const":
            if "fn" in o:
                return ("fn", o["fn"]["path"])
            if "int" in o:
                return Int(o["int"])
            if "str" in o:
                return ("str", o["str"])
            if "pstr" in o:
                # promoted `&"literal"`: a reference to a &str holding the literal
                return ("refval", ("str", o["pstr"]))
            if "penum_adt" in o:
                # promoted `&Enum::UnitVariant`
                return ("refval", agg(o["penum_adt"], o["penum_variant"], []))
            if o.get("zst"):
                return ("zst", o["ty"])
            if "uneval" in o:
                c = self.db.consts.get(o["uneval"])
                if c is not None and "val" in c:
                    return Int(c["val"])
                if c is not None and "str" in c:
                    return ("str", c["str"])
                return ("const", o["uneval"], o.get("text"))
            return ("const", o.get("text"), o["ty"])
        return ("rtcheck",)

    def _rvalue(self, st, fr, rv):
        k = rv["k"]
        if k == "use":
            return self._operand(st, fr, rv["op"])
        if k == "ref":
            return ("ref", self._place(st, fr, rv["place"]), bool(rv["mut"]))
        if k == "rawptr":
            return ("ref", self._place(st, fr, rv["place"]), True)
        if k == "bin":
            a = self._operand(st, fr, rv["a"])
            b = self._operand(st, fr, rv["b"])
            return self.binop(rv["op"], a, b)
        if k == "un":
            a = self._operand(st, fr, rv["a"])
            op = rv["op"]
            if op == "Not" and is_int(a) and a[1] in (0, 1):
                return Int(1 - a[1])
            if op == "PtrMetadata":
                from .panics import norm_str
                a = norm_str(a)
                if isinstance(a, tuple) and a[0] == "call" and a[1].endswith("str::as_bytes") and len(a[2]) == 1:
                    return ("strlen", a[2][0])
                return ("len", a)
            return ("un", op, a)
        if k == "discr":
            v = self._read(st, self._place(st, fr, rv["place"]))
            return self.discr(st, v, rv)
        if k == "agg":
            ops = [self._operand(st, fr, o) for o in rv["ops"]]
            a = rv["agg"]
            if a == "tuple":
                return ("tuple", tuple(ops))
            if a == "adt":
                names = rv["names"]
                if len(names) != len(ops):
                    names = [str(i) for i in range(len(ops))]
                return agg(rv["adt"], rv["variant"] if rv["is_enum"] else None, list(zip(names, ops)))
            if a == "closure":
                return agg("closure:" + rv["def"], None, [(str(i), o) for i, o in enumerate(ops)])
            if a == "array":
                return ("array", tuple(ops))
            return ("rv", a, tuple(ops))
        if k == "cast":
            a = self._operand(st, fr, rv["op"])
            ck = rv["cast"]
            if ck.startswith("PointerCoercion") or ck in ("Transmute", "PtrToPtr"):
                return a
            if is_int(a) and ck == "IntToInt":
                return a
            return ("cast", rv["ty"], a)
        if k == "repeat":
            return ("repeat", self._operand(st, fr, rv["op"]), rv["n"])
        return ("rv", k)

    @staticmethod
    def binop(op, a, b):
        base = op
        if op.endswith("WithOverflow"):
            base = op[:-len("WithOverflow")]
            return ("tuple", (Walker.binop(base, a, b), ("ovf", base, a, b)))
        if is_int(a) and is_int(b):
            x, y = a[1], b[1]
            if base in ("Add", "AddUnchecked"):
                return Int(x + y)
            if base in ("Sub", "SubUnchecked"):
                return Int(x - y)
            if base == "Mul":
                return Int(x * y)
            if base == "Eq":
                return Int(int(x == y))
            if base == "Ne":
                return Int(int(x != y))
            if base == "Lt":
                return Int(int(x < y))
            if base == "Le":
                return Int(int(x <= y))
            if base == "Gt":
                return Int(int(x > y))
            if base == "Ge":
                return Int(int(x >= y))
        if base in ("Eq", "Le", "Ge") and a == b:
            return TRUE
        if base in ("Ne", "Lt", "Gt") and a == b:
            return FALSE
        return ("bin", base, a, b)

    def discr(self, st, v, rv):
        variants = rv.get("variants")
        if variants is None:
            return ("discr", v, None)
        adt = rv["adt"]
        name = None
        base = v
        while isinstance(base, tuple) and base[0] == "upd":
            # an in-place field update does not change the variant; a variant-qualified step names it
            if base[2][0] == "f" and base[2][1] is not None and name is None:
                name = base[2][1]
            base = base[1]
        if name is not None:
            pass
        elif isinstance(base, tuple) and base[0] == "agg":
            name = base[2]
        elif base in st.facts.variant:
            name = st.facts.variant[base]
        elif v in st.facts.variant:
            name = st.facts.variant[v]
        if name is None and base is not v:
            v = base    # discriminate on the underlying value
        if name is not None:
            for x in variants:
                if x["name"] == name:
                    return Int(x["val"])
        return ("discr", v, tuple((x["val"], x["name"]) for x in variants))

    def _stmt(self, st, fr, s):
        k = s["k"]
        if k == "assign":
            val = self._rvalue(st, fr, s["rv"])
            self._write(st, self._place(st, fr, s["place"]), val)
        elif k == "setdiscr":
            pass

    # ------------------------------------------------------------------ branching
    def _switch(self, st, fr, t, work):
        v = self._operand(st, fr, t["discr"])
        targets = t["targets"]
        other = t["otherwise"]
        if is_int(v):
            for val, tb in targets:
                if val == v[1]:
                    st.bb = tb
                    return
            st.bb = other
            return
        if isinstance(v, tuple) and v[0] == "discr" and v[2] is not None:
            subj = v[1]
            allv = dict(v[2])
            taken = set()
            branches = []
            for val, tb in targets:
                if val in allv:
                    branches.append((allv[val], tb))
                    taken.add(val)
            for val, name in v[2]:
                if val not in taken:
                    # `otherwise` is split per remaining variant (exhaustive over the ADT)
                    if self._otherwise_reachable(fr.body, other):
                        branches.append((name, other))
            alive = []
            for name, tb in branches:
                s2 = st.copy()
                if s2.facts.assume_variant(subj, name):
                    s2.bb = tb
                    alive.append(s2)
            self._fork(st, alive, work)
            return
        # boolean / integer condition
        is_bool = t["ty"] == "bool"
        if is_bool:
            d = st.facts.decide(v)
            tb_false = None
            for val, tb in targets:
                if val == 0:
                    tb_false = tb
            if tb_false is None:
                # `switch [1 -> bb]` shape
                tb_true = targets[0][1]
                tb_false = other
            else:
                tb_true = other
            if d is True:
                st.bb = tb_true
                return
            if d is False:
                st.bb = tb_false
                return
            alive = []
            for val, tb in ((True, tb_true), (False, tb_false)):
                s2 = st.copy()
                if s2.facts.assume(v, val):
                    s2.bb = tb
                    alive.append(s2)
            self._fork(st, alive, work)
            return
        # integer / char switch
        alive = []
        for val, tb in targets:
            s2 = st.copy()
            if s2.facts.assume(("bin", "Eq", v, Int(val)), True):
                s2.bb = tb
                alive.append(s2)
        s2 = st.copy()
        ok = True
        for val, tb in targets:
            ok = ok and s2.facts.assume(("bin", "Eq", v, Int(val)), False)
        if ok:
            s2.bb = other
            alive.append(s2)
        self._fork(st, alive, work)

    @staticmethod
    def _otherwise_reachable(body, bb):
        blk = body.blocks[bb]
        return not (blk["term"]["k"] == "unreachable" and not blk["stmts"])

    def _fork(self, st, alive, work):
        if not alive:
            self._finish("unreachable", None, st, detail="all branches contradictory")
        first = alive[0]
        for s in alive[1:]:
            work.append(s)
        # continue with the first alternative in place
        st.__dict__.update(first.__dict__)

    # ------------------------------------------------------------------ calls
    def _arg_value(self, st, a):
        """argument as seen by an opaque callee: shared refs to local places are passed by value"""
        if isinstance(a, tuple) and a[0] == "ref":
            pl = a[1]
            if pl[1][0] == "local":
                return ("refval", self._read(st, pl))
            if not a[2] and any(r2 == pl[1] and (p2[:len(pl[2])] == pl[2] or pl[2][:len(p2)] == p2) for (r2, p2) in st.heap):
                # a shared ref to a place this path has written: the callee sees the value stored there now, not the
                # value the place had on entry (`x: mem::take(&mut self.v), n: self.v.len()` counts the emptied vector)
                return ("refval", self._read(st, pl))
            return a
        return a

    def _call(self, st, fr, bb, t, work):
        callee = t["callee"]
        args = [self._operand(st, fr, a) for a in t["args"]]
        dest = self._place(st, fr, t["dest"])
        site = self._site(fr, bb)
        target = t["target"]

        def done(val):
            self._write(st, dest, val)
            if target is None:
                self._finish("diverge", None, st, detail=("call", callee["path"] if callee else None))
            st.bb = target

        if callee is None:
            val = ("call", "<indirect>", tuple(self._arg_value(st, a) for a in args), self._site_str(site) + fr.utag)
            st.trace.append(("call", "<indirect>", tuple(args), val, site, t["span"]))
            return done(val)

        path = callee["path"]
        cn = cname(path)

        if target is None and (cn.startswith("core::panicking::") or cn.startswith("std::panicking::") or "begin_panic" in cn
                               or cn in ("std::rt::panic_fmt", "core::panicking::panic_fmt", "std::rt::begin_panic", "std::process::abort")
                               or cn.endswith("unwrap_failed") or cn.endswith("expect_failed") or cn.endswith("slice_error_fail")
                               or (cn.startswith("core::slice::index::") and cn.endswith("_fail"))):
            # an explicit panic (`assert!` / `debug_assert!` / `unreachable!` / `panic!` / failed unwrap): same exit kind as a
            # failing MIR Assert terminator
            st.trace.append(("call", cn, tuple(args), None, site, t["span"], callee, len(st.facts.order), t.get("cs")))
            self._finish("panic", None, st, detail=("call", cn, t["span"]))

        # 1. primitive effects of the analysis at hand
        eff = self.effect_of(callee, args, st, self)
        if eff is not None:
            val = ("eff", eff, self._site_str(site) + fr.utag)
            st.trace.append(("eff", eff, tuple(args), val, site, t["span"], callee, tuple(self._arg_value(st, a) for a in args)))
            self.stats["effects"] += 1
            return done(val)

        # 2. models
        r = self.custom_model(cn, callee, args, st, self)
        if r is None:
            r = self._model(cn, callee, args, st, fr, site)
        if r is not None:
            if r[0] == "val":
                return done(r[1])
            if r[0] == "fork":
                alive = []
                for mut, val in r[1]:
                    s2 = st.copy()
                    if mut(s2):
                        if isinstance(val, tuple) and val and val[0] == "__inline__":
                            self._inline(s2, s2.frame, val[1], val[2], dest, target, site, post=val[3])
                            alive.append(s2)
                            continue
                        self._write(s2, dest, val)
                        if target is None:
                            continue
                        s2.bb = target
                        alive.append(s2)
                return self._fork(st, alive, work)
            if r[0] == "inline":
                body2, args2 = r[1], r[2]
                return self._inline(st, fr, body2, args2, dest, target, site, post=(r[3] if len(r) > 3 else None), utag=(r[4] if len(r) > 4 else ""))

        # 3. inline crate-local bodies
        if callee["local"]:
            body2 = self.db.bodies.get(path)
            if body2 is not None and body2.kind == "Closure" and callee["declared"].split("::")[-1] in ("call", "call_mut", "call_once") and len(args) == 2:
                # `Fn::call(&closure, (a, b))` resolved to the closure body, whose MIR takes the arguments untupled
                act = self._apply_fn(st, fr, args[0], list(args[1][1]) if isinstance(args[1], tuple) and args[1][0] == "tuple" else None, None, args[1])
                if act is not None and act[0] == "inline":
                    return self._inline(st, fr, act[1], act[2], dest, target, site, post=act[3])
            if body2 is not None and not self.no_inline(path):
                if fr.depth < self.max_depth:
                    return self._inline(st, fr, body2, args, dest, target, site)
                self.stats["max_depth_hits"] += 1
                st.flags.add(("depth", path))
                st.trace.append(("depth", path, tuple(args), None, site, t["span"]))

        # 4. opaque
        pure = callee["name"] in PURE_NAMES and not any(isinstance(a, tuple) and a[0] == "ref" and a[2] for a in args)
        argv = tuple(self._arg_value(st, a) for a in args)
        val = ("call", cn, argv, None if pure else self._site_str(site) + fr.utag)
        key = cn
        self.stats["opaque"][key] = self.stats["opaque"].get(key, 0) + 1
        st.trace.append(("call", cn, tuple(args), val, site, t["span"], callee, len(st.facts.order), t.get("cs")))
        for i, a in enumerate(args):
            if isinstance(a, tuple) and a[0] == "ref" and a[2]:
                self._write(st, a[1], ("mut", val, i))
        return done(val)

    def _inline(self, st, fr, body2, args, dest, target, site, post=None, utag=""):
        self.stats["inlined"] += 1
        fid = st.nfid
        st.nfid += 1
        f2 = Frame(body2, fid, fr.fid, dest, target, site, fr.depth + 1)
        f2.post = post
        f2.utag0 = f2.utag = fr.utag + utag
        for i in range(1, body2.argc + 1):
            f2.locals[i] = args[i - 1] if i - 1 < len(args) else ("missing-arg", i)
        st.frames[fid] = f2
        st.top = fid
        st.bb = 0

    # ------------------------------------------------------------------ std models
    def _deref_val(self, st, a):
        """value behind a reference-typed argument"""
        if isinstance(a, tuple) and a[0] == "ref":
            return self._read(st, a[1])
        if isinstance(a, tuple) and a[0] == "refval":
            return a[1]
        return ("val", ("obj", ("deref", a)))

    def _model(self, cn, callee, args, st, fr, site):
        name = callee["name"]
        tr = callee["trait"]
        impl_self = callee.get("impl_self") or ""
        # --- transparent smart pointers
        if cn in ("std::sync::Arc::new", "std::boxed::Box::new", "std::rc::Rc::new"):
            return ("val", args[0])
        if name == "deref" and tr == "std::ops::Deref":
            if impl_self.startswith(("std::sync::Arc<", "std::boxed::Box<", "std::string::String", "std::vec::Vec<", "std::borrow::Cow<")):
                return ("val", args[0])
        if name == "deref_mut" and tr == "std::ops::DerefMut":
            if impl_self.startswith(("std::boxed::Box<", "std::string::String", "std::vec::Vec<")):
                return ("val", args[0])
        if name == "as_ref" and impl_self.startswith("std::sync::Arc<"):
            return ("val", args[0])
        if name == "clone" and tr == "std::clone::Clone":
            return ("val", self._deref_val(st, args[0]))
        if name == "borrow" and tr == "std::borrow::Borrow" and impl_self == "T":
            return ("val", args[0])
        # --- identity conversions
        if name == "from" and tr == "std::convert::From" and impl_self == "T":
            return ("val", args[0])
        if name == "into" and tr == "std::convert::Into":
            g = callee["gargs"]
            if len(g) == 2 and g[0] == g[1]:
                return ("val", args[0])
            if len(g) == 2:
                b = self._find_from_impl(g[1], g[0])
                if b is not None and fr.depth < self.max_depth and not self.no_inline(b.defp):
                    return ("inline", b, args)
        if name == "try_into" and tr == "std::convert::TryInto":
            g = callee["gargs"]
            if len(g) == 2:
                b = self._find_from_impl(g[1], g[0], "TryFrom", "try_from")
                if b is not None and fr.depth < self.max_depth and not self.no_inline(b.defp):
                    return ("inline", b, args)
        if name == "into_iter" and tr == "std::iter::IntoIterator" and impl_self == "I":
            return ("val", args[0])
        # --- iteration over an array written out in the function (`for (c, n) in [(a, x), (b, y)] { .. }`,
        #     `[a, b].into_iter().zip([x, y]).for_each(..)`): the elements are known, the iteration is unrolled
        if name == "into_iter" and tr == "std::iter::IntoIterator" and isinstance(args[0], tuple) and args[0][0] == "array":
            return ("val", ("arriter", tuple(args[0][1]), 0))
        if name == "zip" and tr == "std::iter::Iterator" and len(args) == 2:
            a, b = _as_arriter(args[0]), _as_arriter(args[1])
            if a is not None and b is not None:
                ea, eb = a[1][a[2]:], b[1][b[2]:]
                n = min(len(ea), len(eb))
                return ("val", ("arriter", tuple(("tuple", (ea[i], eb[i])) for i in range(n)), 0))
        if name == "next" and tr == "std::iter::Iterator" and len(args) == 1 and isinstance(args[0], tuple) and args[0][0] == "ref":
            cur = self._read(st, args[0][1])
            if isinstance(cur, tuple) and cur and cur[0] == "arriter":
                OPT = "std::option::Option"
                if cur[2] < len(cur[1]):
                    self._write(st, args[0][1], ("arriter", cur[1], cur[2] + 1))
                    return ("val", agg(OPT, "Some", [("0", cur[1][cur[2]])]))
                return ("val", agg(OPT, "None", []))
        if name == "for_each" and tr == "std::iter::Iterator" and len(args) == 2 and _as_arriter(args[0]) is not None \
                and isinstance(args[0], tuple) and args[0][0] == "arriter":
            it = args[0]
            elems = list(it[1][it[2]:])
            unit = ("tuple", ())
            if not elems:
                return ("val", unit)
            f = args[1]

            def step_post(i):
                def p(v, st2):
                    if i + 1 >= len(elems):
                        return unit

                    def k(st3, fr3, dest3, target3, site3, i=i):
                        act = self._apply_fn(st3, fr3, f, [elems[i + 1]], step_post(i + 1))
                        if act is None or act[0] != "inline":
                            st3.flags.add(("depth", "<for_each closure>"))
                            self._write(st3, dest3, unit)
                            st3.bb = target3
                            return
                        self._inline(st3, fr3, act[1], act[2], dest3, target3, site3, post=act[3], utag="#e%d" % (i + 1))
                    return ("__then__", k)
                p.wants_state = True
                return p
            act = self._apply_fn(st, fr, f, [elems[0]], step_post(0))
            if act is not None and act[0] == "inline":
                return tuple(act) + ("#e0",)
        # --- `?`
        if name == "branch" and tr == "std::ops::Try":
            x = args[0]
            if impl_self.startswith("std::result::Result"):
                adt, good, bad = "std::result::Result", "Ok", "Err"
            elif impl_self.startswith("std::option::Option"):
                adt, good, bad = "std::option::Option", "Some", "None"
            else:
                return None
            cf = "std::ops::ControlFlow"

            def cont(x=x):
                return agg(cf, "Continue", [("0", self._proj1(x, ("f", good, "0")))])

            def brk(x=x):
                if bad == "Err":
                    res = agg(adt, "Err", [("0", self._proj1(x, ("f", "Err", "0")))])
                else:
                    res = agg(adt, "None", [])
                return agg(cf, "Break", [("0", res)])
            v = self._known_variant(st, x)
            if v == good:
                return ("val", cont())
            if v == bad:
                return ("val", brk())
            return ("fork", [
                (lambda s, x=x: s.facts.assume_variant(x, good), cont()),
                (lambda s, x=x: s.facts.assume_variant(x, bad), brk()),
            ])
        if name == "from_residual" and tr == "std::ops::FromResidual":
            r = args[0]
            if impl_self.startswith("std::result::Result"):
                e = self._proj1(r, ("f", "Err", "0"))
                g = callee["gargs"]
                # Result<T,F>: From<E> for F — identity when the error types agree, otherwise opaque From
                return ("val", agg("std::result::Result", "Err", [("0", e)]))
            if impl_self.startswith("std::option::Option"):
                return ("val", agg("std::option::Option", "None", []))
        # --- Option / Result predicates
        if cn in ("std::option::Option::is_some", "std::option::Option::is_none",
                  "std::result::Result::is_ok", "std::result::Result::is_err"):
            x = self._deref_val(st, args[0])
            pos = {"is_some": "Some", "is_none": "None", "is_ok": "Ok", "is_err": "Err"}[name]
            neg = {"Some": "None", "None": "Some", "Ok": "Err", "Err": "Ok"}[pos]
            v = self._known_variant(st, x)
            if v is not None:
                return ("val", TRUE if v == pos else FALSE)
            return ("fork", [
                (lambda s, x=x: s.facts.assume_variant(x, pos), TRUE),
                (lambda s, x=x: s.facts.assume_variant(x, neg), FALSE),
            ])
        if cn in ("core::str::len", "std::str::len", "str::len") or (name == "len" and callee["path"].startswith("core::str::") and len(args) == 1):
            a = args[0]
            from .panics import lit_of
            l = lit_of(a)
            if l is not None:
                return ("val", Int(len(l.encode("utf-8"))))
            return ("val", ("strlen", a))
        if name == "len" and len(args) == 1 and ("slice" in callee["path"] or "[T]" in (callee.get("impl_self") or "")):
            from .panics import norm_str
            a = norm_str(args[0])
            if isinstance(a, tuple) and a[0] == "call" and a[1].endswith("str::as_bytes") and len(a[2]) == 1:
                return ("val", ("strlen", a[2][0]))
            return ("val", ("len", a))
        # --- arithmetic helpers
        if name in ("min", "max") and len(args) == 2 and (tr == "std::cmp::Ord" or cn in ("std::cmp::min", "std::cmp::max")):
            a, b = args
            if is_int(a) and is_int(b):
                return ("val", Int(min(a[1], b[1]) if name == "min" else max(a[1], b[1])))
            x, y = sorted((a, b), key=repr)
            return ("val", (name, x, y))
        if name in ("then", "then_some") and len(args) == 2 and (impl_self == "bool" or "bool::" in cn):
            # bool::then(f) = if self { Some(f()) } else { None } ; then_some(v) likewise with the value
            c = args[0]
            OPT = "std::option::Option"
            if name == "then":
                act = self._apply_fn(st, fr, args[1], [], lambda val: agg(OPT, "Some", [("0", val)]))
                if act is None:
                    return None
                yes = act[1] if act[0] == "val" else ("__inline__", act[1], act[2], act[3])
            else:
                yes = agg(OPT, "Some", [("0", args[1])])
            return ("fork", [
                (lambda s, c=c: s.facts.assume(c, True), yes),
                (lambda s, c=c: s.facts.assume(c, False), agg(OPT, "None", [])),
            ])
        if cn in ("std::mem::replace", "core::mem::replace") and len(args) == 2 and isinstance(args[0], tuple) and args[0][0] == "ref":
            # mem::replace(&mut place, v): stores v, returns what was there
            old = self._read(st, args[0][1])
            self._write(st, args[0][1], args[1])
            return ("val", old)
        if cn in ("std::mem::take", "core::mem::take") and len(args) == 1 and isinstance(args[0], tuple) and args[0][0] == "ref":
            # mem::take(&mut place): leaves Default::default() behind, returns what was there
            old = self._read(st, args[0][1])
            self._write(st, args[0][1], ("call", "std::default::Default::default", ()))
            return ("val", old)
        if name in ("from", "into") and len(args) == 1 and "bool" in [g.strip() for g in (callee.get("gargs") or [])] \
                and any(g.strip() in ("u8", "u16", "u32", "u64", "u128", "usize", "i32", "i64") for g in (callee.get("gargs") or [])):
            # u64::from(flag): 1 or 0
            d = st.facts.decide(args[0])
            if d is True:
                return ("val", Int(1))
            if d is False:
                return ("val", Int(0))
            return ("fork", [
                (lambda s, c=args[0]: s.facts.assume(c, True), Int(1)),
                (lambda s, c=args[0]: s.facts.assume(c, False), Int(0)),
            ])
        if name == "checked_sub" and len(args) == 2 and "num" in cn and not _maybe_signed(args[0]) and not _maybe_signed(args[1]):
            # a.checked_sub(b): Some(a - b) when b <= a, None when a < b
            a, b = args
            OPT = "std::option::Option"
            if is_int(a) and is_int(b):
                return ("val", agg(OPT, "Some", [("0", Int(a[1] - b[1]))]) if a[1] >= b[1] else agg(OPT, "None", []))
            return ("fork", [
                (lambda s, a=a, b=b: s.facts.assume(("bin", "Lt", a, b), False), agg(OPT, "Some", [("0", self.binop("Sub", a, b))])),
                (lambda s, a=a, b=b: s.facts.assume(("bin", "Lt", a, b), True), agg(OPT, "None", [])),
            ])
        if name == "abs_diff" and len(args) == 2 and "num" in cn and not _maybe_signed(args[0]) and not _maybe_signed(args[1]):
            a, b = args
            if is_int(a) and is_int(b):
                return ("val", Int(abs(a[1] - b[1])))
            d = st.facts.decide(("bin", "Lt", a, b))
            if d is True:
                return ("val", self.binop("Sub", b, a))
            if d is False:
                return ("val", self.binop("Sub", a, b))
            return ("fork", [
                (lambda s, a=a, b=b: s.facts.assume(("bin", "Lt", a, b), False), self.binop("Sub", a, b)),
                (lambda s, a=a, b=b: s.facts.assume(("bin", "Lt", a, b), True), self.binop("Sub", b, a)),
            ])
        if name == "saturating_sub" and len(args) == 2:
            if is_int(args[0]) and is_int(args[1]):
                return ("val", Int(max(0, args[0][1] - args[1][1])))
            if args[0] == args[1]:
                return ("val", Int(0))
            return ("val", ("satsub", args[0], args[1]))
        if name == "saturating_add" and len(args) == 2:
            if is_int(args[0]) and is_int(args[1]) and args[0][1] + args[1][1] < 2 ** 63:
                return ("val", Int(args[0][1] + args[1][1]))
            return ("val", ("satadd", args[0], args[1]))
        if name in ("eq", "ne") and tr == "std::cmp::PartialEq" and len(args) == 2:
            a = self._deref_val(st, args[0])
            b = self._deref_val(st, args[1])
            # comparison of an enum value with a constant unit variant (`*self == Side::Buy`): a variant test
            for x, c in ((a, b), (b, a)):
                if isinstance(c, tuple) and c[0] == "agg" and not c[3] and c[2] is not None and not (isinstance(x, tuple) and x[0] == "agg"):
                    adt = self.db.adts.get(c[1])
                    if adt is not None and adt["kind"] == "enum" and all(not v["fields"] for v in adt["variants"]):
                        yes, no = (TRUE, FALSE) if name == "eq" else (FALSE, TRUE)
                        alts = []
                        for v in adt["variants"]:
                            alts.append((lambda s, x=x, vn=v["name"]: s.facts.assume_variant(x, vn), yes if v["name"] == c[2] else no))
                        return ("fork", alts)
            return ("val", self.binop("Eq" if name == "eq" else "Ne", a, b))
        if name in ("cmp", "partial_cmp") and len(args) == 2 and tr in ("std::cmp::Ord", "std::cmp::PartialOrd") and \
                (impl_self in ("u8", "u16", "u32", "u64", "u128", "usize", "i8", "i16", "i32", "i64", "i128", "isize") or "impls" in callee["path"]):
            a = self._deref_val(st, args[0])
            b = self._deref_val(st, args[1])
            ORD = "std::cmp::Ordering"

            def mk(v):
                o = agg(ORD, v, [])
                return o if name == "cmp" else agg("std::option::Option", "Some", [("0", o)])
            return ("fork", [
                (lambda s, a=a, b=b: s.facts.assume(("bin", "Lt", a, b), True), mk("Less")),
                (lambda s, a=a, b=b: s.facts.assume(("bin", "Eq", a, b), True), mk("Equal")),
                (lambda s, a=a, b=b: s.facts.assume(("bin", "Gt", a, b), True), mk("Greater")),
            ])
        if name == "unwrap_or" and cn == "std::option::Option::unwrap_or":
            v = self._known_variant(st, args[0])
            if v == "Some":
                return ("val", self._proj1(args[0], ("f", "Some", "0")))
            if v == "None":
                return ("val", args[1])
            a0 = args[0]
            if isinstance(a0, tuple) and a0[0] == "call" and isinstance(a0[1], str) and a0[1].endswith("::checked_sub") and len(a0[2]) == 2 \
                    and args[1] == Int(0) and not _maybe_signed(a0[2][0]):
                # a.checked_sub(b).unwrap_or(0) is a.saturating_sub(b) (unsigned)
                return ("val", ("satsub", a0[2][0], a0[2][1]))
            return ("val", ("unwrap_or", args[0], args[1]))
        # --- direct closure calls
        if name in ("call", "call_mut", "call_once") and tr in ("std::ops::Fn", "std::ops::FnMut", "std::ops::FnOnce"):
            tup = args[1]
            if isinstance(tup, tuple) and tup[0] == "tuple":
                rest = list(tup[1])
            else:
                rest = None
            act = self._apply_fn(st, fr, args[0], rest, None, tup)
            if act is not None:
                return act
        # --- internal iteration: `iter.for_each(f)` / `iter.try_for_each(f)` as a synthetic loop over the iterator
        if name in ("for_each", "try_for_each") and tr == "std::iter::Iterator" and len(args) == 2:
            it = args[0]
            key = (site, "<for_each>", 0)
            kstr = "for_each@" + self._site_str(site)
            nxt_some = ("call", "<synthetic as std::iter::Iterator>::next", (it,), kstr + "#some")
            nxt_none = ("call", "<synthetic as std::iter::Iterator>::next", (it,), kstr + "#none")
            elem = ("field", nxt_some, "Some", "0")
            def loop_post(v, key=key, name=name):
                if name == "try_for_each" and isinstance(v, tuple) and v and v[0] == "agg" and v[2] in ("Err", "Break", "None"):
                    return v        # short-circuit: try_for_each returns the closure's failure
                return ("__backedge__", key)
            act = self._apply_fn(st, fr, args[1], [elem], loop_post)
            if act is not None and act[0] == "inline":
                unit = ("tuple", ())
                done_val = unit if name == "for_each" else agg("std::result::Result", "Ok", [("0", unit)])
                span = None

                def exit_alt(s2, it=it, kstr=kstr, nxt_none=nxt_none):
                    s2.trace.append(("loop", kstr, {}, fr.body.defp))
                    s2.trace.append(("call", "<synthetic as std::iter::Iterator>::next", (it,), nxt_none, site, "", None, len(s2.facts.order), None))
                    return s2.facts.assume_variant(nxt_none, "None")

                def iter_alt(s2, it=it, kstr=kstr, nxt_some=nxt_some):
                    s2.trace.append(("loop", kstr, {}, fr.body.defp))
                    s2.trace.append(("call", "<synthetic as std::iter::Iterator>::next", (it,), nxt_some, site, "", None, len(s2.facts.order), None))
                    return s2.facts.assume_variant(nxt_some, "Some")
                alts = [(exit_alt, done_val), (iter_alt, ("__inline__", act[1], act[2], act[3]))]
                if name == "try_for_each":
                    errv = ("call", "<synthetic>::try_for_each_break", (it, args[1]), kstr + "#err")

                    def err_alt(s2, errv=errv, kstr=kstr):
                        s2.trace.append(("loop", kstr, {}, fr.body.defp))
                        return s2.facts.assume_variant(errv, "Err")
                    alts.append((err_alt, errv))
                return ("fork", alts)
        # --- `iter::from_fn(g).find_map(f)`: loop { match g() { None => return None, Some(x) => if let Some(y) = f(x) { return Some(y) } } }
        if name == "find_map" and tr == "std::iter::Iterator" and len(args) == 2:
            it, f = args
            src = it[1] if isinstance(it, tuple) and it[0] == "refval" else it
            if isinstance(src, tuple) and src[0] == "ref":
                src = self._read(st, src[1])
            g = src[2][0] if isinstance(src, tuple) and src[0] == "call" and src[1].endswith("from_fn") and src[2] else None
            if g is not None:
                key = (site, "<find_map>", 0)
                kstr = "find_map@" + self._site_str(site)
                OPT = "std::option::Option"

                def post_f(kind, key=key):
                    def p(w, st2):
                        if not st2.facts.assume_variant(w, "Some" if kind == "hit" else "None"):
                            return ("__prune__",)
                        return w if kind == "hit" else ("__backedge__", key)
                    p.wants_state = True
                    return p

                def post_g(kind):
                    def p(v, st2):
                        if not st2.facts.assume_variant(v, "None" if kind == "none" else "Some"):
                            return ("__prune__",)
                        if kind == "none":
                            return agg(OPT, "None", [])
                        payload = self._proj1(v, ("f", "Some", "0"))

                        def k(st3, fr3, dest3, target3, site3, payload=payload, kind=kind):
                            act = self._apply_fn(st3, fr3, f, [payload], post_f(kind))
                            if act is None or act[0] != "inline":
                                self._write(st3, dest3, ("call", "<find_map closure>", (payload,), self._site_str(site3)))
                                st3.bb = target3
                                return
                            self._inline(st3, fr3, act[1], act[2], dest3, target3, site3, post=act[3])
                        return ("__then__", k)
                    p.wants_state = True
                    return p
                alts = []
                okm = True
                for kind in ("none", "hit", "miss"):
                    act = self._apply_fn(st, fr, g, [], post_g(kind))
                    if act is None or act[0] != "inline":
                        okm = False
                        break

                    def mark(s2, kstr=kstr):
                        s2.trace.append(("loop", kstr, {}, fr.body.defp))
                        return True
                    alts.append((mark, ("__inline__", act[1], act[2], act[3])))
                if okm:
                    return ("fork", alts)
        # --- Option / Result combinators with the closure applied on the matching variant
        comb = COMBINATORS.get(cn)
        if comb is not None and len(args) >= 1:
            return self._combinator(st, fr, comb, args)
        return None

    def _apply_fn(self, st, fr, f, argvals, post, tup=None):
        """action for calling function value f (closure aggregate, reference to one, or fn item) with argvals"""
        fv = f
        if isinstance(f, tuple) and f[0] == "ref":
            fv = self._read(st, f[1])
        if isinstance(fv, tuple) and fv[0] == "agg" and isinstance(fv[1], str) and fv[1].startswith("closure:"):
            b = self.db.bodies.get(fv[1][len("closure:"):])
            if b is not None and fr.depth < self.max_depth + 2:
                want_ref = b.locals[1]["ty"].startswith("&")
                a0 = f
                if want_ref and not (isinstance(f, tuple) and f[0] == "ref"):
                    a0 = ("ref", ("pl", ("obj", ("closure-env", fv)), ()), False)
                    st.heap[(("obj", ("closure-env", fv)), ())] = fv
                if not want_ref and isinstance(f, tuple) and f[0] == "ref":
                    a0 = fv
                if argvals is None:
                    argvals = [self._proj1(tup, ("f", None, str(i))) for i in range(b.argc - 1)]
                return ("inline", b, [a0] + list(argvals), post)
        if isinstance(fv, tuple) and fv[0] == "fn" and argvals is not None:
            p = cname(fv[1])
            ctor = self._ctor_of(p)
            if ctor is not None:
                adt, variant, names = ctor
                if len(names) == len(argvals):
                    v = agg(adt, variant, list(zip(names, argvals)))
                    return ("val", post(v) if post else v)
            if p in ("std::sync::Arc::new", "std::boxed::Box::new") and len(argvals) == 1:
                v = argvals[0]
                return ("val", post(v) if post else v)
            b = self.db.bodies.get(fv[1])
            if b is not None and fr.depth < self.max_depth + 2 and not self.no_inline(fv[1]):
                return ("inline", b, list(argvals), post)
            if b is not None:
                # a crate-local function named as a value (`.and_then(Self::from_snapshot)`) that this analysis keeps
                # opaque: same treatment as a direct call of it (effect hook, then an opaque call term + trace event)
                callee = {"path": fv[1], "declared": fv[1], "resolved": fv[1], "name": b.name, "trait": b.impl_trait,
                          "impl_self": b.impl_self, "local": True, "rkind": "item", "path_args": [], "gargs": [], "crate": None}
                site = self._site(fr, st.bb)
                eff = self.effect_of(callee, list(argvals), st, self)
                if eff is not None:
                    val = ("eff", eff, self._site_str(site) + fr.utag)
                    st.trace.append(("eff", eff, tuple(argvals), val, site, "", callee, tuple(self._arg_value(st, a) for a in argvals)))
                    self.stats["effects"] += 1
                else:
                    val = ("call", p, tuple(self._arg_value(st, a) for a in argvals), self._site_str(site) + fr.utag)
                    st.trace.append(("call", p, tuple(argvals), val, site, "", callee, len(st.facts.order), None))
                return ("val", post(val) if post else val)
        return None

    def _ctor_of(self, path):
        """(adt, variant, field names) when `path` names a tuple-like enum variant or tuple struct constructor"""
        std = {"std::option::Option::Some": ("std::option::Option", "Some", ["0"]), "std::result::Result::Ok": ("std::result::Result", "Ok", ["0"]),
               "std::result::Result::Err": ("std::result::Result", "Err", ["0"])}
        if path in std:
            return std[path]
        if "::" not in path:
            return None
        head, last = path.rsplit("::", 1)
        a = self.db.adts.get(head)
        if a is not None and a["kind"] == "enum":
            for v in a["variants"]:
                if v["name"] == last and v["fields"] and all(f["name"].isdigit() for f in v["fields"]):
                    return (a["def"], last, [f["name"] for f in v["fields"]])
        a = self.db.adts.get(path)
        if a is not None and a["kind"] == "struct" and a["variants"][0]["fields"] and all(f["name"].isdigit() for f in a["variants"][0]["fields"]):
            return (a["def"], None, [f["name"] for f in a["variants"][0]["fields"]])
        return None

    def _combinator(self, st, fr, comb, args):
        adt, pos, neg, kind = comb
        x = args[0]
        OPT, RES = "std::option::Option", "std::result::Result"

        def payload(v):
            return self._proj1(x, ("f", v, "0"))

        def wrap(a, v):
            return lambda val: agg(a, v, [("0", val)])
        alts = []   # (variant, action)
        f = args[1] if len(args) > 1 else None
        if kind == "map":            # Some(x)->Some(f(x)) ; Ok(x)->Ok(f(x))
            alts.append((pos, self._apply_fn(st, fr, f, [payload(pos)], wrap(adt, pos))))
            alts.append((neg, ("val", x if adt == OPT else agg(adt, neg, [("0", payload(neg))]))))
        elif kind == "map_err":
            alts.append((pos, ("val", agg(adt, pos, [("0", payload(pos))]))))
            alts.append((neg, self._apply_fn(st, fr, f, [payload(neg)], wrap(adt, neg))))
        elif kind == "and_then":
            alts.append((pos, self._apply_fn(st, fr, f, [payload(pos)], None)))
            alts.append((neg, ("val", agg(adt, neg, [] if adt == OPT else [("0", payload(neg))]))))
        elif kind == "or_else":      # Err(e) -> f(e) ; None -> f()
            alts.append((pos, ("val", agg(adt, pos, [("0", payload(pos))]))))
            alts.append((neg, self._apply_fn(st, fr, f, [payload(neg)] if adt == RES else [], None)))
        elif kind == "ok_or_else":   # Option -> Result
            alts.append((pos, ("val", agg(RES, "Ok", [("0", payload(pos))]))))
            alts.append((neg, self._apply_fn(st, fr, f, [], wrap(RES, "Err"))))
        elif kind == "ok_or":
            alts.append((pos, ("val", agg(RES, "Ok", [("0", payload(pos))]))))
            alts.append((neg, ("val", agg(RES, "Err", [("0", f)]))))
        elif kind == "ok":           # Result -> Option
            alts.append((pos, ("val", agg(OPT, "Some", [("0", payload(pos))]))))
            alts.append((neg, ("val", agg(OPT, "None", []))))
        elif kind == "unwrap_or_else":
            alts.append((pos, ("val", payload(pos))))
            alts.append((neg, self._apply_fn(st, fr, f, [] if adt == OPT else [payload(neg)], None)))
        elif kind == "filter":       # Some(x) -> if f(&x) { Some(x) } else { None }
            px = payload(pos)
            keep = agg(adt, pos, [("0", px)])
            drop_ = agg(adt, neg, [])
            alts.append((pos, self._apply_fn(st, fr, f, [("refval", px)], lambda b, keep=keep, drop_=drop_: ("__forkbool__", b, keep, drop_))))
            alts.append((neg, ("val", drop_)))
        elif kind == "map_or":       # (self, default, f)
            g = args[2] if len(args) > 2 else None
            alts.append((pos, self._apply_fn(st, fr, g, [payload(pos)], None)))
            alts.append((neg, ("val", f)))
        elif kind == "map_or_else":  # (self, default_fn, f): None -> default_fn() / Err(e) -> default_fn(e) ; Some(x)/Ok(x) -> f(x)
            g = args[2] if len(args) > 2 else None
            alts.append((pos, self._apply_fn(st, fr, g, [payload(pos)], None)))
            alts.append((neg, self._apply_fn(st, fr, f, [] if adt == OPT else [payload(neg)], None)))
        else:
            return None
        if any(a is None for _, a in alts):
            return None
        known = self._known_variant(st, x)
        out = []
        for v, act in alts:
            if known is not None and v != known:
                continue
            val = act[1] if act[0] == "val" else ("__inline__", act[1], act[2], act[3] if len(act) > 3 else None)
            out.append((lambda s, x=x, v=v: s.facts.assume_variant(x, v), val))
        return ("fork", out)

    def _known_variant(self, st, x):
        if isinstance(x, tuple) and x[0] == "agg":
            return x[2]
        return st.facts.variant.get(x)

    def _find_from_impl(self, target_ty, source_ty, trait="From", meth="from"):
        from .db import squash
        want = squash("%s<%s>" % (trait, source_ty))
        for b in self.db.bodies.values():
            if b.name == meth and b.impl_trait and squash(b.impl_self or "") == squash(target_ty):
                if squash(b.impl_trait).endswith("::" + want + ">") or squash(b.impl_trait).endswith(want + ">"):
                    return b
        return None


def _as_arriter(x):
    """iterator state over a literal array (or the array itself, which is IntoIterator)"""
    if isinstance(x, tuple) and x:
        if x[0] == "arriter":
            return x
        if x[0] == "array":
            return ("arriter", tuple(x[1]), 0)
    return None


class _EndPath(Exception):
    pass
