"""E6 - compile-fail witnesses (thorough tier only).

`/verif/witnesses` is a crate that path-depends on /repo and contains `compile_fail,E0616` doctests (a private field of
PriceLevel / OrderQueue / UuidGenerator is named from outside the crate) each paired with a `no_run` twin that differs
only in the offending access.  `cargo +nightly test --doc` type-checks them against the current working tree; nothing
from /repo is executed (the twins are `no_run`, the witnesses do not compile).  This is a cross-check of the MIR/ADT
visibility rules of the quick tier through the compiler's own privacy checker."""
import os
import re
import shutil
import subprocess

from .extract import VERIF, CACHE, REPO

EXPECT = {
    "level": ["visible_quantity", "hidden_quantity", "order_count", "orders", "stats", "price"],
    "queue": ["orders", "order_ids"],
    "generator": ["counter", "namespace"],
}


def run_witnesses(ctx, chk, rid, groups):
    src = os.path.join(VERIF, "witnesses")
    work = os.path.join(ctx.work, "witnesses")
    shutil.rmtree(work, ignore_errors=True)
    shutil.copytree(src, work, ignore=shutil.ignore_patterns("target"))
    # the witnesses name the crate under analysis by path; honour PLV_REPO (developer runs on scratch worktrees)
    ct = os.path.join(work, "Cargo.toml")
    with open(ct) as fh:
        s = fh.read()
    with open(ct, "w") as fh:
        fh.write(s.replace('path = "/repo"', 'path = "%s"' % REPO))
    shutil.copy(os.path.join(REPO, "Cargo.lock"), os.path.join(work, "Cargo.lock"))
    # one target dir per analysed tree: the crate's un-hashed artefact names (libpricelevel.rlib) would otherwise be
    # shared between /repo and a developer's scratch worktree; and always rebuild the crate under analysis
    import hashlib
    tdir = os.path.join(CACHE, "target-wit" + ("" if REPO == "/repo" else "-" + hashlib.sha1(REPO.encode()).hexdigest()[:8]))
    fp = os.path.join(tdir, "debug", ".fingerprint")
    if os.path.isdir(fp):
        for d in os.listdir(fp):
            if d.startswith("pricelevel-") or d.startswith("plvwit-"):
                shutil.rmtree(os.path.join(fp, d), ignore_errors=True)
    env = dict(os.environ, CARGO_NET_OFFLINE="true", CARGO_TARGET_DIR=tdir)
    env.pop("RUSTC_WORKSPACE_WRAPPER", None)
    r = subprocess.run(["cargo", "+nightly", "test", "--doc", "--offline"], cwd=work, env=env, capture_output=True, text=True)
    res = {}
    for m in re.finditer(r"^test src/lib.rs - (\w+) \(line \d+\)( - compile fail| - compile)? \.\.\. (\w+)", r.stdout, re.M):
        res[m.group(1)] = (m.group(2) or "").strip(" -"), m.group(3)
    if not res:
        chk.fail(rid, "witness-build", "", "the witness crate did not build against the current tree:\n" + (r.stderr or r.stdout)[-1500:])
        return
    for g in groups:
        twin = res.get("T_" + g)
        chk.require(twin is not None and twin[1] == "ok", rid, "twin:" + g, "witnesses/src/lib.rs",
                   "the compiling twin of the %s witnesses (public accessors only) type-checks: %s" % (g, twin))
        for f in EXPECT[g]:
            w = res.get("W_%s_%s" % (g, f))
            ok = w is not None and w[0] == "compile fail" and w[1] == "ok" and twin is not None and twin[1] == "ok"
            chk.require(ok, rid, "%s.%s" % (g, f), "witnesses/src/lib.rs",
                       "naming the private field `%s` of the %s from outside the crate is rejected by rustc with E0616 "
                       "(compile_fail witness): %s" % (f, g, w))
    chk.stats["witnesses_checked"] = chk.stats.get("witnesses_checked", 0) + sum(len(EXPECT[g]) for g in groups)
