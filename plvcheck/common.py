"""Shared context for the rules: fact extraction, roles of order fields, helpers."""
import os

from .db import DB, AnchorError
from .extract import extract, extract_repo, VERIF
from .walk import Walker
from .effects import CallGraph
from .terms import short


class Ctx:
    def __init__(self, pid, tier):
        self.pid = pid
        self.tier = tier
        self.work = os.path.join(VERIF, ".work", "%s-%s%s" % (pid, tier, os.environ.get("PLV_WORK_TAG", "")))
        lib, others, dt = extract_repo(self.work, all_targets=False)
        self.db = DB(lib)
        self.extract_s = dt
        self._cg = None
        self._ref = None
        self._fix = None
        self._roles = None
        self.depth = 4 if tier == "quick" else 8
        self.max_paths = 20000 if tier == "quick" else 200000

    @property
    def cg(self):
        if self._cg is None:
            self._cg = CallGraph(self.db)
        return self._cg

    @property
    def ref(self):
        if self._ref is None:
            facts, _ = extract(os.path.join(VERIF, "reference"), os.path.join(self.work, "ref"), "plvref",
                               target_name="target-aux")
            self._ref = DB(list(facts.values())[0])
        return self._ref

    @property
    def fixtures(self):
        if self._fix is None:
            facts, _ = extract(os.path.join(VERIF, "fixtures"), os.path.join(self.work, "fix"), "plvfix",
                               target_name="target-aux")
            self._fix = DB(list(facts.values())[0])
        return self._fix

    def walker(self, db=None, **kw):
        kw.setdefault("max_depth", self.depth)
        kw.setdefault("max_paths", self.max_paths)
        return Walker(db or self.db, **kw)

    @property
    def roles(self):
        if self._roles is None:
            self._roles = Roles(self)
        return self._roles


class Roles:
    """display(V) / reserve(V) / identity fields of each OrderType variant, read off the accessors
    `OrderType::visible_quantity` and `OrderType::hidden_quantity` (never hard-coded)."""

    def __init__(self, ctx):
        db = ctx.db
        self.adt = db.adt("orders::order_type::OrderType")
        self.adt_path = self.adt["def"]
        self.variants = [v["name"] for v in self.adt["variants"]]
        self.fields = {v["name"]: [f["name"] for f in v["fields"]] for v in self.adt["variants"]}
        self.display = self._accessor(ctx, "visible_quantity")
        self.reserve = self._accessor(ctx, "hidden_quantity")
        self.id_field = self._accessor(ctx, "id")
        self.price_field = self._accessor(ctx, "price")
        self.side_field = self._accessor(ctx, "side")
        self.ts_field = self._accessor(ctx, "timestamp")
        for v in self.variants:
            if v not in self.display or self.display[v] is None:
                raise AnchorError("OrderType::visible_quantity does not return a field for variant %s" % v)

    def _accessor(self, ctx, name):
        b = ctx.db.method("OrderType", name)
        w = ctx.walker(max_depth=1)
        out = {}
        for r in w.walk(b):
            if r.kind != "return":
                continue
            subj = ("val", ("obj", ("param", 1)))
            v = r.facts.variant.get(subj)
            if v is None:
                raise AnchorError("accessor OrderType::%s: a path does not discriminate the variant" % name)
            t = r.value
            if isinstance(t, tuple) and t[0] == "field" and t[1] == subj and t[2] == v:
                f = t[3]
            elif isinstance(t, tuple) and t[0] == "int":
                f = None if t[1] == 0 else ("const", t[1])
            else:
                raise AnchorError("accessor OrderType::%s[%s] returns %s, not a field of self" % (name, v, short(t)))
            if v in out and out[v] != f:
                raise AnchorError("accessor OrderType::%s[%s] is ambiguous" % (name, v))
            out[v] = f
        for v in self.variants:
            if v not in out:
                raise AnchorError("accessor OrderType::%s has no path for variant %s" % (name, v))
        return out

    def identity_fields(self, v):
        return [f for f in self.fields[v] if f != self.display[v] and f != self.reserve[v]]

    # -- views of an order term
    def view(self, o, facts):
        """(variant, {field: term}) of an order value: a constructed aggregate, an in-place update chain over another
        order (`let mut out = self.clone(); out.quantity = q`), or an opaque order whose variant is known from the facts"""
        if isinstance(o, tuple) and o[0] == "agg":
            return o[2], dict(o[3])
        if isinstance(o, tuple) and o[0] == "upd":
            ups = []
            base = o
            v_hint = None
            while isinstance(base, tuple) and base[0] == "upd":
                step = base[2]
                if step[0] == "f":
                    ups.append((step[2], base[3]))
                    v_hint = v_hint or step[1]
                base = base[1]
            bv, bf = self.view(base, facts)
            v = bv or v_hint
            if v is None or v not in self.fields:
                return None, None
            if bf is None:
                bf = {f: ("field", base, v, f) for f in self.fields[v]}
            fd = dict(bf)
            for name, val in reversed(ups):
                fd[name] = val
            return v, fd
        v = facts.variant.get(o)
        if v is not None and v in self.fields:
            return v, {f: ("field", o, v, f) for f in self.fields[v]}
        return None, None

    def variant_of(self, o, facts):
        if isinstance(o, tuple) and o[0] == "agg":
            return o[2]
        if isinstance(o, tuple) and o[0] == "upd":
            return self.view(o, facts)[0]
        return facts.variant.get(o)

    def role(self, o, facts, which):
        """term for display/reserve of order term o, or ('role', which, o) when the variant is unknown"""
        v = self.variant_of(o, facts)
        if v is None:
            return (which, o)
        f = (self.display if which == "display" else self.reserve)[v]
        if f is None:
            return ("int", 0)
        if isinstance(o, tuple) and o[0] in ("agg", "upd"):
            fd = self.view(o, facts)[1]
            if fd is not None and f in fd:
                return fd[f]
        return ("field", o, v, f)


def is_adt(t, suffix):
    return isinstance(t, tuple) and t[0] == "agg" and isinstance(t[1], str) and (t[1] == suffix or t[1].endswith("::" + suffix) or t[1].endswith(suffix))


def describe_path(r, limit=30):
    out = []
    for e in r.trace:
        if e[0] == "eff":
            out.append("%s(%s)  @%s" % (e[1], ", ".join(short(a) for a in e[2][1:])[:160], e[5]))
        elif e[0] == "loop":
            out.append("-- loop header %s" % e[1])
        elif e[0] == "call" and e[3] is not None and e[3][3] is not None:
            out.append("call %s  @%s" % (e[1], e[5]))
    out.append("facts: " + "; ".join(r.facts.describe(limit)))
    out.append("exit: %s" % r.kind)
    return out[-limit - 2:]
