"""Run the rustc_private exporter over a crate's current working tree and load the fact file.

Every check calls this on every run: /repo's source is re-read by the compiler each time
(cargo's freshness cache is defeated by deleting the member fingerprints, and the fact file
must carry this run's nonce, otherwise the run fails closed).
"""
import fcntl
import glob
import json
import os
import re
import subprocess
import sys
import time
import uuid

VERIF = os.path.dirname(os.path.dirname(os.path.abspath(__file__)))
DRIVER = os.path.join(VERIF, "driver", "target", "release", "plv-driver")
CACHE = os.path.join(VERIF, ".cache")
REPO = os.environ.get("PLV_REPO", "/repo")


_REEXPORT = re.compile(r"(?:[A-Za-z_][A-Za-z0-9_]*::)+_::_serde::")


class ExtractError(Exception):
    pass


def _sysroot_lib():
    out = subprocess.run(["rustc", "+nightly", "--print", "sysroot"], capture_output=True, text=True)
    if out.returncode != 0:
        raise ExtractError("nightly toolchain not available: " + out.stderr)
    return os.path.join(out.stdout.strip(), "lib")


def ensure_driver():
    if os.path.exists(DRIVER):
        return
    env = dict(os.environ, CARGO_NET_OFFLINE="true")
    r = subprocess.run(["cargo", "+nightly", "build", "--release", "--offline"],
                       cwd=os.path.join(VERIF, "driver"), env=env, capture_output=True, text=True)
    if r.returncode != 0 or not os.path.exists(DRIVER):
        raise ExtractError("cannot build plv-driver:\n" + r.stderr[-4000:])


def extract(manifest_dir, out_dir, crate, all_targets=False, target_name="target", extra_args=(), any_crate=False):
    """Compile `manifest_dir` with the exporter; return {file_basename: facts} for `crate`.

    Raises ExtractError if the crate does not compile or no fresh fact file appears."""
    ensure_driver()
    os.makedirs(out_dir, exist_ok=True)
    os.makedirs(CACHE, exist_ok=True)
    for f in glob.glob(os.path.join(out_dir, "*.json")):
        os.unlink(f)
    nonce = uuid.uuid4().hex
    target = os.path.join(CACHE, target_name)
    env = dict(os.environ)
    env.update({
        "LD_LIBRARY_PATH": _sysroot_lib() + ":" + env.get("LD_LIBRARY_PATH", ""),
        "RUSTFLAGS": "-Zmir-opt-level=0 -Awarnings",
        "RUSTC_WORKSPACE_WRAPPER": DRIVER,
        "CARGO_TARGET_DIR": target,
        "CARGO_NET_OFFLINE": "true",
        "PLV_OUT": out_dir,
        "PLV_NONCE": nonce,
    })
    env.pop("RUSTC_WRAPPER", None)
    cmd = ["cargo", "+nightly", "check", "--offline", "--manifest-path",
           os.path.join(manifest_dir, "Cargo.toml")]
    cmd += ["--all-targets"] if all_targets else ["--lib"]
    cmd += list(extra_args)
    lock = open(os.path.join(CACHE, "lock-" + target_name), "w")
    fcntl.flock(lock, fcntl.LOCK_EX)
    try:
        # defeat cargo's freshness cache for workspace members (deps stay cached)
        for prof in ("debug",):
            fp = os.path.join(target, prof, ".fingerprint")
            if os.path.isdir(fp):
                for d in os.listdir(fp):
                    if d.startswith((crate or "pricelevel") + "-") or d.startswith("pricelevel-") or d.startswith("examples-") or d.startswith("plv") \
                            or d.startswith("tests-") or d.startswith("benches-"):
                        subprocess.run(["rm", "-rf", os.path.join(fp, d)])
        t0 = time.time()
        r = subprocess.run(cmd, env=env, capture_output=True, text=True, cwd=manifest_dir)
        dt = time.time() - t0
    finally:
        fcntl.flock(lock, fcntl.LOCK_UN)
        lock.close()
    if r.returncode != 0:
        raise ExtractError("cargo check failed (the tree does not compile?):\n" + r.stderr[-6000:])
    facts = {}
    for f in sorted(glob.glob(os.path.join(out_dir, "*.json"))):
        with open(f) as fh:
            # rustc prints serde's items through whichever `extern crate serde as _serde` (inside a derive's anonymous
            # const) it meets first - `orders::base::_::_serde::Deserialize` - which depends on module order: normalise
            d = json.loads(_REEXPORT.sub("serde::", fh.read()))
        if d.get("nonce") != nonce:
            raise ExtractError("stale fact file " + f)
        if any_crate or d.get("crate") == crate:
            facts[os.path.basename(f)] = d
    if not facts:
        raise ExtractError("no fresh fact file for crate %s in %s (driver skipped?)\n%s" % (crate, out_dir, r.stderr[-2000:]))
    return facts, dt


def extract_repo(workdir, all_targets=False):
    facts, dt = extract(REPO, os.path.join(workdir, "facts"), "pricelevel", all_targets=all_targets)
    lib = [d for d in facts.values() if not d.get("is_test")]
    if len(lib) != 1:
        raise ExtractError("expected exactly one non-test fact file for pricelevel, got %d" % len(lib))
    others = [d for d in facts.values() if d.get("is_test")]
    return lib[0], others, dt


if __name__ == "__main__":
    lib, others, dt = extract_repo(os.path.join(VERIF, ".work", "probe"))
    print("bodies", len(lib["bodies"]), "in", round(dt, 2), "s")
