"""Obligation bookkeeping, known-findings handling, evidence and replay files."""
import json
import os
import re
import time

VERIF = os.path.dirname(os.path.dirname(os.path.abspath(__file__)))
# developer runs against a scratch worktree (PLV_REPO) must not overwrite the evidence of /repo
EVDIR = os.path.join(VERIF, "evidence") if os.environ.get("PLV_REPO", "/repo") == "/repo" else os.path.join(VERIF, ".work", "evidence-dev")


class Check:
    """One run of one property's rules."""

    def __init__(self, pid, tier, seed=0):
        self.pid = pid
        self.tier = tier
        self.seed = seed
        self.t0 = time.time()
        self.obligations = []   # dicts: rule, key, site, ok, detail
        self.samples = []
        self.stats = {}
        self.rules_text = {}
        self.assumptions = []
        self.not_decided = []
        self.trusted = []
        self.explanation = ""
        self.entry_sets = {}
        self.fixture_results = []

    # ---- obligations
    def rule(self, rid, text):
        self.rules_text[rid] = text

    def ok(self, rule, key, site="", detail=""):
        self.obligations.append({"rule": rule, "key": "%s:%s:%s" % (self.pid, rule, key), "site": site,
                                 "ok": True, "detail": detail})

    def fail(self, rule, key, site="", detail="", path=None, undecided=False):
        self.obligations.append({"rule": rule + ("/undecided" if undecided else ""),
                                 "key": "%s:%s:%s" % (self.pid, rule, key), "site": site, "ok": False,
                                 "detail": detail, "path": path or []})

    def require(self, cond, rule, key, site="", detail="", path=None):
        if cond:
            # `detail` is worded for the failing case: do not attach it to a discharged obligation
            self.ok(rule, key, site, "")
        else:
            self.fail(rule, key, site, detail, path)
        return cond

    def sample(self, s):
        if len(self.samples) < 12:
            self.samples.append(s)

    # ---- finishing
    def finish(self):
        kf = load_known_findings()
        # known findings are matched module-agnostically: a function keeps its identity (Type::method) when the file
        # it lives in is renamed or the type is moved to another module
        known = {norm_key(f["key"]): f for f in kf if f["property"] == self.pid and f["status"] == "known"}
        failures = [o for o in self.obligations if not o["ok"]]
        # de-duplicate by key (one report per key)
        by_key = {}
        for o in failures:
            by_key.setdefault(o["key"], []).append(o)
        violations = []
        known_hit = []
        for key, objs in sorted(by_key.items()):
            if norm_key(key) in known:
                known_hit.append((key, known[norm_key(key)], objs))
            else:
                violations.append((key, objs))
        os.makedirs(os.path.join(EVDIR, "replay"), exist_ok=True)
        lines = []
        for key, f, objs in known_hit:
            lines.append("KNOWN-FINDING: property=%s %s %s" % (self.pid, key, f["what"]))
        for key, objs in violations:
            rp = os.path.join(EVDIR, "replay", "%s-%s.json" % (self.pid, re.sub(r"[^A-Za-z0-9_.-]+", "_", key)[:150]))
            with open(rp, "w") as fh:
                json.dump({"property": self.pid, "key": key, "tier": self.tier, "reports": objs,
                           "rule_text": self.rules_text.get(objs[0]["rule"].split("/")[0], "")}, fh, indent=1, default=str)
            o = objs[0]
            print("violation: %s\n    rule %s: %s\n    at %s\n    %s" % (
                key, o["rule"], self.rules_text.get(o["rule"].split("/")[0], ""), o["site"], str(o["detail"])[:1500]))
            for step in (o.get("path") or [])[:40]:
                print("      | %s" % step)
            lines.append("VIOLATION property=%s replay=%s" % (self.pid, rp))
        n_obl = len(self.obligations)
        n_ok = sum(1 for o in self.obligations if o["ok"])
        distinct = len({(o["rule"], o["key"]) for o in self.obligations})
        ev = {
            "property_id": self.pid,
            "tier": self.tier,
            "seed": self.seed,
            "level": "other",
            "coverage": {
                "explanation": self.explanation,
                "obligations": n_obl,
                "discharged": n_ok,
                "evaluations": max(n_obl, 1),
                "distinct_nontrivial": distinct,
                "rule": "one obligation per (rule, site/path instance) found in /repo's current MIR/AST; "
                        "distinct = distinct (rule,key) pairs; nothing is sampled or random",
                "rules": self.rules_text,
                "samples": self.samples or [dict(o, verdict="discharged" if o["ok"] else "failed",
                                                  rule_text=self.rules_text.get(o["rule"].split("/")[0], "")[:300])
                                             for o in self.obligations[:5]],
                "known_findings": [k for k, _, _ in known_hit],
                "violating_keys": [k for k, _ in violations],
                "stats": self.stats,
                "entry_sets": self.entry_sets,
                "not_decided": self.not_decided,
                "trusted_base": self.trusted,
                "fixtures": self.fixture_results,
                "checker_cmd": "./plv check %s --tier %s" % (self.pid, self.tier),
                "exhaustive": False,
            },
            "assumptions": self.assumptions,
            "wall_s": round(time.time() - self.t0, 3),
            "violations": len(violations),
        }
        with open(os.path.join(EVDIR, "%s.json" % self.pid), "w") as fh:
            json.dump(ev, fh, indent=1, default=str)
        for l in lines:
            print(l)
        print("%s [%s]: %d obligations, %d discharged, %d known finding(s), %d violation(s), %.1fs" % (
            self.pid, self.tier, n_obl, n_ok, len(known_hit), len(violations), time.time() - self.t0))
        return 1 if violations else 0


_MODPATH = re.compile(r"(?<![A-Za-z0-9_])(?:[a-z_][a-z0-9_]*::)+(?=[A-Z<])")


def norm_key(k):
    """violation key with module paths dropped in front of type names: price_level::level::PriceLevel::match_order ->
    PriceLevel::match_order"""
    # `a::b::<impl a::c::T>::m` (a method defined in another module than its type) -> `T::m`
    k = re.sub(r"(?:[a-z_][a-z0-9_]*::)*<impl (?:[a-z_][a-z0-9_]*::)*([A-Z][A-Za-z0-9_]*)(?:<[^>]*>)?>", r"\1", k)
    return _MODPATH.sub("", k)


class Relabel:
    """view of a Check that files every obligation of a borrowed rule function under one rule id of the borrowing
    property (keys keep the original rule id as a prefix)"""

    def __init__(self, chk, rid, prefix=""):
        self._chk, self._rid, self._prefix = chk, rid, prefix

    def _key(self, rule, key):
        return "%s%s:%s" % (self._prefix, rule, key)

    def ok(self, rule, key, site="", detail=""):
        return self._chk.ok(self._rid, self._key(rule, key), site, detail)

    def fail(self, rule, key, site="", detail="", path=None, undecided=False):
        return self._chk.fail(self._rid, self._key(rule, key), site, detail, path, undecided=undecided)

    def require(self, cond, rule, key, site="", detail="", path=None):
        return self._chk.require(cond, self._rid, self._key(rule, key), site, detail, path)

    def rule(self, rid, text):
        pass

    def __getattr__(self, n):
        return getattr(self._chk, n)


def load_known_findings():
    p = os.path.join(VERIF, "known_findings.json")
    with open(p) as fh:
        return json.load(fh)["findings"]


def broken(pid, tier, msg):
    """the checker itself could not run (fail closed): report as a violation of the property's check"""
    os.makedirs(os.path.join(EVDIR, "replay"), exist_ok=True)
    rp = os.path.join(EVDIR, "replay", "%s-checker-error.json" % pid)
    with open(rp, "w") as fh:
        json.dump({"property": pid, "error": msg}, fh, indent=1)
    ev = {"property_id": pid, "tier": tier, "seed": 0, "level": "other",
          "coverage": {"explanation": "checker could not complete: " + msg[:2000], "evaluations": 1,
                       "distinct_nontrivial": 2}, "wall_s": 0.0, "violations": 1}
    with open(os.path.join(EVDIR, "%s.json" % pid), "w") as fh:
        json.dump(ev, fh, indent=1)
    print("checker error: " + msg)
    print("VIOLATION property=%s replay=%s" % (pid, rp))
    return 1
