"""Program database over the exporter's facts: bodies, ADTs, CFG utilities."""
import re


class Body:
    def __init__(self, j):
        self.j = j
        self.defp = j["def"]
        self.kind = j["kind"]
        self.name = j["name"]
        self.impl_self = j["impl_self"]
        self.impl_trait = j["impl_trait"]
        self.parent = j["parent"]
        self.vis = j["vis"]
        self.span = j["span"]
        self.argc = j["argc"]
        self.locals = j["locals"]
        self.blocks = j["blocks"]
        self.dbg = {}
        for d in j["dbg"]:
            if not d["place"]["p"]:
                self.dbg.setdefault(d["place"]["l"], d["name"])
        self._succ = None
        self._dom = None
        self._loops = None
        self._pdom = None

    # ---- CFG (cleanup blocks and unwind edges are ignored: panics are handled as exits) ----
    def succ(self, b):
        if self._succ is None:
            self._succ = [self._succ_of(i) for i in range(len(self.blocks))]
        return self._succ[b]

    def _succ_of(self, b):
        t = self.blocks[b]["term"]
        k = t["k"]
        if k == "goto":
            return [t["target"]]
        if k == "switch":
            out = []
            for _, tb in t["targets"]:
                if tb not in out:
                    out.append(tb)
            if t["otherwise"] not in out:
                out.append(t["otherwise"])
            return out
        if k in ("drop", "assert"):
            return [t["target"]]
        if k == "call":
            return [t["target"]] if t["target"] is not None else []
        return []

    def preds(self):
        p = {i: [] for i in range(len(self.blocks))}
        for i in range(len(self.blocks)):
            for s in self.succ(i):
                p[s].append(i)
        return p

    def reachable(self):
        seen = {0}
        st = [0]
        while st:
            b = st.pop()
            for s in self.succ(b):
                if s not in seen:
                    seen.add(s)
                    st.append(s)
        return seen

    def dominators(self):
        """dom[b] = set of blocks dominating b (iterative; bodies are small)."""
        if self._dom is not None:
            return self._dom
        reach = self.reachable()
        nodes = sorted(reach)
        preds = self.preds()
        dom = {b: set(nodes) for b in nodes}
        dom[0] = {0}
        changed = True
        while changed:
            changed = False
            for b in nodes:
                if b == 0:
                    continue
                ps = [p for p in preds[b] if p in reach]
                new = set(nodes)
                for p in ps:
                    new &= dom[p]
                new = new | {b}
                if new != dom[b]:
                    dom[b] = new
                    changed = True
        self._dom = dom
        return dom

    def exits(self):
        return [i for i in self.reachable() if self.blocks[i]["term"]["k"] == "return"]

    def postdominators(self):
        """pdom[b] = set of blocks post-dominating b w.r.t. `return` exits."""
        if self._pdom is not None:
            return self._pdom
        reach = self.reachable()
        nodes = sorted(reach)
        exits = set(self.exits())
        pdom = {b: set(nodes) for b in nodes}
        for e in exits:
            pdom[e] = {e}
        changed = True
        while changed:
            changed = False
            for b in reversed(nodes):
                if b in exits:
                    continue
                ss = [s for s in self.succ(b) if s in reach]
                if not ss:
                    new = {b}
                else:
                    new = set(nodes)
                    for s in ss:
                        new &= pdom[s]
                    new = new | {b}
                if new != pdom[b]:
                    pdom[b] = new
                    changed = True
        self._pdom = pdom
        return pdom

    def loops(self):
        """natural loops: {header: set(body blocks)} from back edges u->h with h dom u."""
        if self._loops is not None:
            return self._loops
        dom = self.dominators()
        preds = self.preds()
        loops = {}
        for u in dom:
            for h in self.succ(u):
                if h in dom[u]:
                    body = loops.setdefault(h, {h})
                    st = [u]
                    while st:
                        x = st.pop()
                        if x not in body:
                            body.add(x)
                            st.extend(p for p in preds[x] if p in dom)
        self._loops = loops
        return loops

    def calls(self):
        for i, b in enumerate(self.blocks):
            t = b["term"]
            if t["k"] == "call":
                yield i, t

    def local_name(self, l):
        return self.dbg.get(l, "_%d" % l)


class DB:
    def __init__(self, facts):
        self.facts = facts
        self.crate = facts["crate"]
        self.bodies = {}
        for j in facts["bodies"]:
            self.bodies[j["def"]] = Body(j)
        self.adts = {a["def"]: a for a in facts["adts"]}
        self.consts = {c["def"]: c for c in facts["consts"]}
        self.impls = facts["impls"]
        self.fmt = facts["fmt"]
        self.attrs = facts["attrs"]

    # ---- lookup helpers (anchors are public API names; never line numbers) ----
    def find(self, suffix):
        """bodies whose def path ends with `suffix` (on a `::` boundary)."""
        out = []
        for d, b in self.bodies.items():
            if d == suffix or d.endswith("::" + suffix):
                out.append(b)
        return out

    def one(self, suffix):
        r = self.find(suffix)
        if len(r) != 1:
            raise AnchorError("anchor %s: expected exactly one body, found %d" % (suffix, len(r)))
        return r[0]

    def method(self, self_ty_suffix, name, trait=None):
        """inherent or trait method `name` of the type whose path ends with self_ty_suffix."""
        out = []
        for b in self.bodies.values():
            if b.kind != "AssocFn" or b.name != name or not b.impl_self:
                continue
            st = strip_generics(b.impl_self)
            if not (st == self_ty_suffix or st.endswith("::" + self_ty_suffix)):
                continue
            if trait is None:
                if b.impl_trait is not None:
                    continue
            else:
                if b.impl_trait is None:
                    continue
                tr = b.impl_trait
                if not trait_matches(tr, trait):
                    continue
            out.append(b)
        if len(out) != 1:
            raise AnchorError("anchor %s::%s%s: expected exactly one body, found %d" % (
                self_ty_suffix, name, (" (trait %s)" % trait) if trait else "", len(out)))
        return out[0]

    def methods_opt(self, self_ty_suffix, name, trait=None):
        try:
            return self.method(self_ty_suffix, name, trait)
        except AnchorError:
            return None

    def closures_of(self, defp):
        return [b for b in self.bodies.values() if b.kind == "Closure" and b.defp.startswith(defp + "::{closure")]

    def serde_visitors(self, ty):
        """(field-identifier visit_str bodies, visit_map bodies) of the hand-written Deserialize of struct `ty`, found by
        type (wherever the visitor items live: nested in `deserialize`, hoisted to module level, in another file):
        visit_map is the Visitor method returning Result<ty, _>; the field visitor is the one producing the key type
        that visit_map asks for with next_key::<K>()"""
        pat = re.compile(r"Result<(?:[A-Za-z_][A-Za-z0-9_]*::)*%s\s*," % re.escape(ty))
        vm = [b for b in self.bodies.values() if b.name == "visit_map" and b.impl_trait and "Visitor" in b.impl_trait
              and b.locals and pat.search(b.locals[0]["ty"])]
        vs = []
        for m in vm:
            keytys = set()
            for bb, t in m.calls():
                c = t["callee"]
                if c and c["name"] in ("next_key", "next_key_seed", "next_entry") and c.get("gargs"):
                    for g in c["gargs"]:
                        if "MapAccess" not in g and "'" not in g[:2] and g not in ("A",) and "::" in g or g[:1].isupper():
                            keytys.add(g.replace(" ", ""))
            for b in self.bodies.values():
                if b.name == "visit_str" and b.impl_trait and "Visitor" in b.impl_trait and b.locals:
                    rt = b.locals[0]["ty"].replace(" ", "")
                    if any(("Result<" + k + ",") in rt for k in keytys) and b not in vs:
                        vs.append(b)
        return vs, vm

    def adt(self, suffix):
        """the crate's struct/enum named by the last segment of `suffix` (module-agnostic: a type moved to another
        file keeps its anchor); the qualified form only disambiguates two types of the same name"""
        r = [a for d, a in self.adts.items() if d == suffix or d.endswith("::" + suffix)]
        if len(r) != 1:
            name = suffix.split("::")[-1]
            r = [a for d, a in self.adts.items() if d.split("::")[-1] == name]
        if len(r) != 1:
            raise AnchorError("anchor adt %s: expected one, found %d" % (suffix, len(r)))
        return r[0]


class AnchorError(Exception):
    pass


def strip_generics(t):
    """`a::B<T>` -> `a::B`; leaves references/tuples alone."""
    depth = 0
    out = []
    for ch in t:
        if ch == "<":
            depth += 1
        elif ch == ">":
            depth -= 1
        elif depth == 0:
            out.append(ch)
    return "".join(out).strip()


def trait_matches(tr, want):
    """tr is like `<T as std::str::FromStr>` rendered as 'std::str::FromStr' or
    '<price_level::level::PriceLevel as std::convert::From<&...>>'. Match on the trait path's
    last segment (before generics) or on a full `Name<args>` when `want` carries generics."""
    m = re.match(r"^<(.*) as (.*)>$", tr)
    t = m.group(2) if m else tr
    if "<" in want:
        if t.endswith(want) or squash(t).endswith(squash(want)):
            return True
        # module-agnostic: compare with every path reduced to its last segment (`From<&a::b::T>` ~ `From<&T>`)
        short_ = lambda x: re.sub(r"(?:[A-Za-z_][A-Za-z0-9_]*::)+", "", squash(x))
        return short_(t).endswith(short_(want))
    base = strip_generics(t)
    return base == want or base.endswith("::" + want)


def squash(s):
    return re.sub(r"\s+", "", s)
