"""E3 - codec table extraction: writer tables from the AST `format_args!` templates of Display impls,
reader tables from the provenance (E1) of every field of the value a FromStr parser returns."""
import re

from .terms import short, subterms
from .panics import lit_of, pat_text
from .db import strip_generics

SEPARATORS = set(":;=,[]")


def base_type(s):
    return strip_generics(s.replace(" ", "")).split("::")[-1]


class WriterEntry:
    def __init__(self, f):
        self.f = f
        self.arm = (f["arms"][-1] if f["arms"] else "").replace("\n", " ")
        self.pieces = f["pieces"]
        self.args = [a["expr"].replace("\n", " ") for a in f["args"]]
        self.template = "".join(p["lit"] if "lit" in p else "{%d}" % p["arg"] for p in f["pieces"])
        self.callsite = f["callsite"]

    def literal_text(self):
        return "".join(p["lit"] for p in self.pieces if "lit" in p)

    def placeholders(self):
        """[(key or None, arg index, trait, default_opts, preceding literal)]"""
        out = []
        prev = ""
        for p in self.pieces:
            if "lit" in p:
                prev = p["lit"]
            else:
                key = None
                m = re.search(r"([A-Za-z_][A-Za-z0-9_]*)=\[?$", prev)
                if m:
                    key = m.group(1)
                opts = p.get("opts", "")
                default = all(x in opts for x in ("width: None", "precision: None", "alignment: None", "fill: None", "sign: None", "alternate: false", "zero_pad: false", "debug_hex: None"))
                out.append((key, p["arg"], p["trait"], default, prev))
                prev = ""
        return out


def arm_variant(arm):
    """'OrderType::Standard { id, .. }' -> 'Standard'"""
    m = re.match(r"\s*(?:[A-Za-z_][A-Za-z0-9_]*::)*([A-Za-z_][A-Za-z0-9_]*)", arm)
    return m.group(1) if m else None


def arm_bindings(arm):
    """binding name -> field name for a struct-like or tuple-like pattern"""
    out = {}
    m = re.search(r"\{(.*)\}", arm)
    if m:
        for part in m.group(1).split(","):
            part = part.strip()
            if not part or part == "..":
                continue
            if ":" in part:
                f, b = [x.strip() for x in part.split(":", 1)]
                out[b] = f
            else:
                out[part] = part
        return out
    m = re.search(r"\((.*)\)", arm)
    if m:
        for i, part in enumerate(m.group(1).split(",")):
            part = part.strip()
            if part and part != "_":
                out[part] = str(i)
    return out


def arg_field(expr, bindings):
    """-> (field, idiom) for a format argument expression"""
    e = expr.strip()
    m = re.fullmatch(r"self\.([A-Za-z_][A-Za-z0-9_]*)(\(\))?", e)
    if m:
        return m.group(1), "display"
    m = re.fullmatch(r"self\.([A-Za-z_][A-Za-z0-9_]*)\.load\(.*\)", e)
    if m:
        return m.group(1), "display"
    if re.fullmatch(r"[A-Za-z_][A-Za-z0-9_]*", e):
        return bindings.get(e, e), "display"
    m = re.search(r"format_args!\(\"\{0:\?\}\",\s*([A-Za-z_][A-Za-z0-9_]*)\)\s*\)?\s*\}?\s*\)\s*\.to_uppercase\(\)$", e)
    if m and "must_use" in e:
        return bindings.get(m.group(1), m.group(1)), "debug-upper"
    m = re.fullmatch(r"([A-Za-z_][A-Za-z0-9_]*)\.map_or\(\"([^\"]*)\"\.to_string\(\),\s*\|([a-z_]+)\|\s*\3\.to_string\(\)\)", e)
    if m:
        return bindings.get(m.group(1), m.group(1)), "option-sentinel:" + m.group(2)
    m = re.fullmatch(r"([A-Za-z_][A-Za-z0-9_]*)\.join\(\"([^\"]*)\"\)", e)
    if m:
        return m.group(1), "join:" + m.group(2)
    return None, "unrecognised"


def fold_const_args(db, entry):
    """a `{}` placeholder filled by a crate `const NAME: &str` is literal text of the template
    (`write!(f, "{}:..", TRANSACTION_TAG, ..)` writes the same bytes as `"Transaction:.."`)"""
    changed = False
    pieces = []
    for p in entry.pieces:
        if "arg" in p and p.get("trait") == "Display" and p["arg"] < len(entry.args):
            ex = entry.args[p["arg"]].strip()
            if re.fullmatch(r"(?:[A-Za-z_][A-Za-z0-9_]*::)*[A-Z][A-Z0-9_]*", ex):
                last = ex.split("::")[-1]
                cs = [c for d, c in db.consts.items() if (d == last or d.endswith("::" + last)) and "str" in c]
                opts = p.get("opts", "")
                if len(cs) == 1 and "width: None" in opts and "precision: None" in opts:
                    p = {"lit": cs[0]["str"]}
                    changed = True
        if "lit" in p and pieces and "lit" in pieces[-1]:
            pieces[-1] = {"lit": pieces[-1]["lit"] + p["lit"]}
        else:
            pieces.append(dict(p))
    if changed:
        entry.pieces = pieces
        entry.template = "".join(p["lit"] if "lit" in p else "{%d}" % p["arg"] for p in pieces)
    return entry


def _pos_key(span):
    m = re.match(r"^(.*?):(\d+):(\d+)", span or "")
    return (m.group(1), int(m.group(2)), int(m.group(3))) if m else (span or "", 0, 0)


def _site_variants(ctx, body):
    """(def, bb) of a call site -> set of variants of `self` decided on the walked paths that reach it (None = undecided)"""
    out = {}
    if ctx is None:
        return out
    try:
        res = ctx.walker(max_depth=2).walk(body)
    except Exception:
        return out
    for r in res:
        v = r.facts.variant.get(("val", ("obj", ("param", 1))))
        for e in r.trace:
            if e[0] == "call" and len(e) > 4 and isinstance(e[4], tuple) and e[4]:
                out.setdefault(e[4][-1], set()).add(v)
    return out


def mir_write_str_entries(db, body, tyname, ctx=None):
    """plain-literal writer entries for `Formatter::write_str(lit)` / `write_char(c)` calls in a Display impl and its
    closures; an entry is tagged with the variant of `self` when every walked path reaching the call decided the same one
    (`TimeInForce::Day => f.write_str(TOKEN_DAY)` next to a `write!` arm)"""
    from .rules.c10 import _const_str_arg
    out = []
    sv = _site_variants(ctx, body)
    for d, b in db.bodies.items():
        if d != body.defp and not d.startswith(body.defp + "::"):
            continue
        for bb, t in b.calls():
            c = t["callee"]
            if not c or c["name"] not in ("write_str", "write_char") or "fmt" not in (c.get("path") or ""):
                continue
            args = t["args"] or []
            if len(args) < 2:
                continue
            a = args[1]
            v = None
            if a.get("k") == "const":
                v = a.get("str") or a.get("pstr") or a.get("char")
            if v is None:
                v = _const_str_arg(b, a)
            if v is None and a.get("k") in ("copy", "move"):
                l = a["place"]["l"]
                for blk in b.blocks:
                    for st in blk["stmts"]:
                        if st["k"] == "assign" and st["place"]["l"] == l and not st["place"]["p"]:
                            op = st["rv"].get("op") or {}
                            v = v or op.get("pstr") or op.get("char") or op.get("str")
            if v is None:
                continue
            vs = sv.get((d, bb)) or set()
            arms = ["%s::%s" % (tyname, list(vs)[0])] if len(vs) == 1 and None not in vs else []
            f = {"mod": "", "impl_self": tyname, "impl_trait": "fmt::Display", "fns": ["fmt"], "arms": arms,
                 "pieces": [{"lit": v}], "args": [], "macros": ["write!"], "span": t["span"], "callsite": t["span"]}
            out.append(WriterEntry(f))
    return out


def mir_literal_writers(ctx, body, tyname):
    """writer entries of a Display impl that prints fixed text without a format macro
    (`f.write_str(match self { Side::Buy => "BUY", .. })`, `f.pad("..")`): one entry per path, made of the literals
    written to the formatter on it, tagged with the variant of `self` the path decided.  None when a path writes
    anything that is not a literal."""
    try:
        res = ctx.walker(max_depth=2).walk(body)
    except Exception:
        return None
    out = []
    for r in res:
        if r.kind != "return":
            continue
        text = ""
        span = body.span
        for e in r.trace:
            if e[0] != "call":
                continue
            last = e[1].split("::")[-1]
            if e[1].startswith(("std::fmt::Formatter::", "core::fmt::Formatter::")) and last in ("write_str", "pad", "write_char"):
                a = e[2][1] if len(e[2]) > 1 else None
                l = lit_of(a)
                if l is None and isinstance(a, tuple) and a[0] == "int" and last == "write_char":
                    l = chr(a[1])
                if l is None:
                    return None
                text += l
                span = e[5] or span
            else:
                return None
        v = r.facts.variant.get(("val", ("obj", ("param", 1))))
        f = {"mod": "", "impl_self": tyname, "impl_trait": "fmt::Display", "fns": ["fmt"],
             "arms": ["%s::%s" % (tyname, v)] if v else [], "pieces": [{"lit": text}], "args": [],
             "macros": ["write!"], "span": span, "callsite": span}
        out.append(WriterEntry(f))
    return out or None


class Writers:
    def __init__(self, db, ctx=None):
        self.by_type = {}
        for f in db.fmt:
            if not f["impl_trait"].endswith("Display") or f["fns"][:1] != ["fmt"]:
                continue
            if "write!" not in f["macros"] and "writeln!" not in f["macros"]:
                continue
            t = base_type(f["impl_self"])
            self.by_type.setdefault(t, []).append(fold_const_args(db, WriterEntry(f)))
        # literals written straight to the formatter (`f.write_str(";ids=[")`, `f.write_char(',')`) next to the format
        # templates of the same impl are part of its output: plain-literal entries, merged in source order
        for t in list(self.by_type):
            extra = []
            for b in db.bodies.values():
                if b.name == "fmt" and b.impl_trait and "fmt::Display" in b.impl_trait and b.kind != "Closure" and base_type(b.impl_self or "") == t:
                    extra += mir_write_str_entries(db, b, t, ctx)
            if extra:
                self.by_type[t] = sorted(self.by_type[t] + extra, key=lambda e: _pos_key(e.callsite))
        if ctx is not None:
            for b in db.bodies.values():
                if b.name == "fmt" and b.impl_trait and "fmt::Display" in b.impl_trait and b.kind != "Closure":
                    t = base_type(b.impl_self or "")
                    if t and t not in self.by_type:
                        ents = mir_literal_writers(ctx, b, t)
                        if ents:
                            self.by_type[t] = ents
        self.nested = {}
        for f in db.fmt:
            if f["impl_trait"].endswith("Display") and f["fns"][:1] == ["fmt"] and "format!" in f["macros"]:
                self.nested.setdefault(base_type(f["impl_self"]), []).append(fold_const_args(db, WriterEntry(f)))

    def literals(self, ty):
        """all literal text a type's Display can emit (own templates only)"""
        return [e.literal_text() for e in self.by_type.get(ty, [])]


class ReaderPath:
    def __init__(self, r):
        self.r = r
        v = r.value
        self.inner = dict(v[3])["0"]
        t = self.inner
        self.variant = t[2] if isinstance(t, tuple) and t[0] == "agg" else None
        self.adt = t[1] if isinstance(t, tuple) and t[0] == "agg" else None
        self.fields = dict(t[3]) if isinstance(t, tuple) and t[0] == "agg" else {}
        self.eq_true = []
        self.eq_false = []
        self.prefixes = []
        self.suffixes = []
        for a, p in r.facts.order:
            if a[0] == "eq":
                l = lit_of(a[1]) or lit_of(a[2])
                other = a[2] if lit_of(a[1]) else a[1]
                if l is not None:
                    (self.eq_true if p else self.eq_false).append((l, other))
            if a[0] == "variant" and a[2] == "Some" and isinstance(a[1], tuple) and a[1][0] == "call" and len(a[1][2]) == 2:
                # `s.strip_prefix(lit)` / `strip_suffix(lit)` returned Some: same knowledge as starts_with / ends_with
                if a[1][1].endswith("strip_prefix"):
                    t2 = pat_text(a[1][2][1])
                    if t2 is not None:
                        self.prefixes.append(t2)
                if a[1][1].endswith("strip_suffix"):
                    t2 = pat_text(a[1][2][1])
                    if t2 is not None:
                        self.suffixes.append(t2)
            if a[0] == "truth" and p is True and isinstance(a[1], tuple) and a[1][0] == "call":
                if a[1][1].endswith("starts_with"):
                    t2 = pat_text(a[1][2][1])
                    if t2 is not None:
                        self.prefixes.append(t2)
                if a[1][1].endswith("ends_with"):
                    t2 = pat_text(a[1][2][1])
                    if t2 is not None:
                        self.suffixes.append(t2)

    def keys_of(self, term):
        ks = []
        for s in subterms(term):
            if isinstance(s, tuple) and s[0] == "call" and s[1].endswith("HashMap::get") and len(s[2]) >= 2:
                k = lit_of(s[2][1])
                ks.append(k)
        return ks

    def calls_of(self, term):
        return [s[1] for s in subterms(term) if isinstance(s, tuple) and s[0] == "call" and isinstance(s[1], str)]

    def uppercases(self):
        for a, p in self.r.facts.order:
            if any(isinstance(s, tuple) and s[0] == "call" and isinstance(s[1], str) and s[1].endswith("to_uppercase") for s in subterms(a)):
                return True
        for t in self.fields.values():
            if any(c.endswith("to_uppercase") for c in self.calls_of(t)):
                return True
        return False


def helpers_of(ctx, body):
    """def paths that belong to `body`'s own code for a table / panic analysis: items nested in it (closures, inner fns)
    and the crate's *private* helper functions it reaches (a parse helper moved out to module level or into a private
    `mod detail`), but not the parsers of other types (FromStr / Deserialize / TryFrom impls) nor public functions"""
    db, cg = ctx.db, ctx.cg
    key = ("helpers", body.defp)
    cache = ctx.__dict__.setdefault("_helpers_cache", {})
    if key in cache:
        return cache[key]
    seen = {body.defp}
    st = [body.defp]
    while st:
        d = st.pop()
        for t in cg.edges.get(d, ()):
            if t in seen:
                continue
            b = db.bodies.get(t)
            if b is None:
                continue
            nested = t.startswith(body.defp + "::")
            private_helper = b.kind != "Closure" and b.impl_trait is None and getattr(b, "vis", None) != "pub" \
                and b.name not in ("from_str", "deserialize", "try_from", "new")
            parent_in = b.kind == "Closure" and b.parent in seen
            if nested or private_helper or parent_in:
                seen.add(t)
                st.append(t)
    cache[key] = seen
    return seen


def reader_paths(ctx, body):
    w = ctx.walker(max_depth=4)
    hs = helpers_of(ctx, body)
    w.no_inline = lambda p, hs=hs: p not in hs
    out = []
    res = w.walk(body)
    for r in res:
        v = r.value
        if r.kind == "return" and isinstance(v, tuple) and v[0] == "agg" and v[2] == "Ok":
            out.append(ReaderPath(r))
    return out, res


def str_and_char_consts(db, body, helpers=None):
    """string literals and char constants mentioned by a body, its nested closures/fns and (when given) its private
    helpers (for list-structure rules)"""
    strs, chars = set(), set()
    for d, b in db.bodies.items():
        if d != body.defp and not d.startswith(body.defp + "::") and not (helpers and d in helpers):
            continue
        for blk in b.blocks:
            ops = []
            for s in blk["stmts"]:
                if s["k"] == "assign":
                    rv = s["rv"]
                    for k in ("op", "a", "b"):
                        if isinstance(rv.get(k), dict):
                            ops.append(rv[k])
                    ops += rv.get("ops", []) or []
            t = blk["term"]
            ops += t.get("args") or []
            if t["k"] == "switch":
                if t["ty"] in ("char", "u8"):
                    for v, _ in t["targets"]:
                        if 0 <= v < 0x110000 and (t["ty"] == "char" or v < 128):
                            chars.add(chr(v))
            for o in ops:
                if o.get("k") == "const":
                    if "str" in o:
                        strs.add(o["str"])
                    if "pstr" in o:
                        strs.add(o["pstr"])
                    if "char" in o:
                        chars.add(o["char"])
                    if o.get("ty") == "u8" and "int" in o and 0 < o["int"] < 128:
                        chars.add(chr(o["int"]))
    return strs, chars


JOIN_CALLS = {"join", "push", "push_str", "write_str", "write_char", "concat", "connect"}


def writer_joiners(db, body):
    """literal separators a list writer emits outside its format templates: constants handed to join / push / push_str /
    write_str / write_char inside `body` and its nested closures (any spelling of `xs.join(",")` or a push loop)"""
    from .rules.c10 import _const_str_arg
    out = []
    for d, b in db.bodies.items():
        if d != body.defp and not d.startswith(body.defp + "::"):
            continue
        for bb, t in b.calls():
            c = t["callee"]
            if not c or c["name"] not in JOIN_CALLS:
                continue
            for a in (t["args"] or [])[1:]:
                v = None
                if a.get("k") == "const":
                    v = a.get("str") or a.get("pstr") or a.get("char")
                if v is None:
                    v = _const_str_arg(b, a)
                if v is None and a.get("k") in ("copy", "move"):
                    # promoted &str / char constant assigned to a temporary
                    l = a["place"]["l"]
                    for blk in b.blocks:
                        for st in blk["stmts"]:
                            if st["k"] == "assign" and st["place"]["l"] == l and not st["place"]["p"]:
                                op = st["rv"].get("op") or {}
                                v = v or op.get("pstr") or op.get("char") or op.get("str")
                if v is not None:
                    out.append(v)
    return out


def list_joiner(db, body, idiom):
    """the joiner of a list-valued format argument: from the source idiom if recognised, else from the MIR of the writer"""
    if idiom and idiom.startswith("join:"):
        return idiom.split(":", 1)[1]
    js = set(writer_joiners(db, body))
    return js.pop() if len(js) == 1 else None


# ------------------------------------------------------------------------------------------ MIR-side argument resolution

def _self_field_places(t):
    out = []
    for x in subterms(t):
        if isinstance(x, tuple) and len(x) == 3 and x[0] == "pl" and x[1] == ("obj", ("param", 1)) and x[2] and x[2][0][0] == "f":
            out.append((x[2][0][1], x[2][0][2], x))
        if isinstance(x, tuple) and len(x) == 4 and x[0] == "field" and x[1] == ("val", ("obj", ("param", 1))):
            out.append((x[2], x[3], x))
    return out


def resolve_arg(argcall, facts):
    """argcall: ('call', 'core::fmt::rt::Argument::new_<trait>', (x,), ..) -> dict(field, kind, trait, literal, variant)"""
    trait = argcall[1].split("::")[-1].replace("new_", "")
    x = argcall[2][0]
    lit = lit_of(x)
    if lit is None and isinstance(x, tuple) and x[0] == "refval":
        lit = lit_of(x[1])
    calls = [c[1].split("::")[-1] for c in subterms(x) if isinstance(c, tuple) and c and c[0] == "call" and isinstance(c[1], str)]
    places = _self_field_places(x)
    fields = sorted({f for v, f, _ in places})
    res = {"trait": trait, "calls": calls, "field": fields[0] if len(fields) == 1 else None, "literal": None, "kind": "unknown", "variant": None}
    if lit is not None and not fields:
        res["kind"], res["literal"] = "literal", lit
        return res
    if not calls or set(calls) <= {"load"}:
        res["kind"] = "display"
        return res
    if "to_uppercase" in calls and "new_debug" in calls:
        res["kind"] = "debug-upper"
        return res
    if set(calls) <= {"to_string"}:
        # to_string of a literal (sentinel) or of a payload of the field
        inner = None
        for c in subterms(x):
            if isinstance(c, tuple) and c and c[0] == "call" and c[1].endswith("to_string") and c[2]:
                inner = c[2][0]
        l2 = lit_of(inner) if inner is not None else None
        if l2 is None and isinstance(inner, tuple) and inner[0] == "refval":
            l2 = lit_of(inner[1])
        if l2 is not None:
            res["kind"], res["literal"] = "literal", l2
        else:
            res["kind"] = "display"
        return res
    return res


def mir_writer_args(ctx, ty):
    """callsite -> [(facts, [resolved arg, ...])] for every write_fmt call on every path of <ty as Display>::fmt"""
    try:
        b = ctx.db.method(ty, "fmt", trait="Display")
    except Exception:
        return {}
    w = ctx.walker(max_depth=4)
    out = {}
    try:
        res = w.walk(b)
    except Exception:
        return {}
    for r in res:
        for e in r.trace:
            if e[0] == "call" and e[1].endswith("write_fmt") and len(e) > 8 and e[8]:
                a = e[3][2][1] if isinstance(e[3], tuple) and len(e[3][2]) > 1 else None
                if not (isinstance(a, tuple) and a[0] == "call" and a[1].endswith("Arguments::new") and len(a[2]) == 2):
                    out.setdefault(e[8], []).append((r.facts, []))
                    continue
                arr = a[2][1]
                arr = arr[1] if isinstance(arr, tuple) and arr[0] == "refval" else arr
                items = list(arr[1]) if isinstance(arr, tuple) and arr[0] == "array" else []
                out.setdefault(e[8], []).append((r.facts, [resolve_arg(x, r.facts) if isinstance(x, tuple) and x[0] == "call" else None for x in items]))
    return out
