"""Rule functions over the PriceLevel mutators' path summaries, shared by several properties.
Each takes (ctx, chk, L, rid, ...) and records obligations under rule id `rid`."""
from .terms import Affine, affine, prove_zero, short, Int, is_int, subterms, linsys_from_facts, Facts
from .common import describe_path
from .level import LevelAnalysis, MUTATORS, SELF, mentions_eff, seq_view, container_local
from .rules.c01 import segments, arm_of, bounded_decrement

BORROWED = {"Q.find", "Q.to_vec", "Q.len", "Q.is_empty", "ATOMIC.load", "MAP.get", "MAP.iter"}


def borrowed_origin(r, t):
    """the BORROWED effect a term derives from, directly or through the element of an iteration over a borrowed
    listing (`for o in level.iter_orders() { .. o .. }`: the loop variable is an element of the pre-loop iterator)"""
    bad = mentions_eff(t, BORROWED)
    if bad is not None:
        return bad
    for s in subterms(t):
        if isinstance(s, tuple) and len(s) >= 3 and s[0] == "call" and isinstance(s[1], str) and s[1].endswith("::next") and s[2]:
            for h in subterms(s[2][0]):
                if isinstance(h, tuple) and len(h) == 3 and h[0] == "havoc":
                    for ev in r.trace:
                        if ev[0] == "loop" and ev[1] == h[1]:
                            pre = ev[2].get(h[2])
                            if pre is not None:
                                bad = mentions_eff(pre, BORROWED)
                                if bad is not None:
                                    return bad
    return None


def usable(chk, rid, fn, site, r):
    if r.kind in ("unreachable", "panic"):
        return False
    if r.flags:
        chk.fail(rid, "%s:undecided" % fn, site, "inline depth bound hit: %s" % sorted(r.flags), describe_path(r), undecided=True)
        return False
    if r.kind not in ("return", "backedge"):
        chk.fail(rid, "%s:exit-%s" % (fn, r.kind), site, "path ends in %s (%s)" % (r.kind, r.detail), describe_path(r), undecided=True)
        return False
    return True


def first_label(r):
    a = arm_of(r)
    return a.split("/")[0]


# ----------------------------------------------------------------------------- K1 / B2
def rule_owned_operands(ctx, chk, L, rid):
    """every counter add/sub operand and every published order derives from owned terms and scalars only"""
    n = 0
    for name in L.mutators():
        b, res, _ = L.paths(name)
        for r in res:
            if not usable(chk, rid, b.defp, b.span, r):
                continue
            arm = first_label(r)
            cev = L.counter_events(r.trace)
            qev = L.queue_events(r.trace, r.facts)
            for role, op, operand, e in cev:
                if op in ("fetch_add", "fetch_sub") and operand is not None:
                    n += 1
                    bad = borrowed_origin(r, operand)
                    chk.require(bad is None, rid, "%s:%s" % (b.defp, arm), e[5],
                                "%s(%s) on the %s counter is computed from %s, a value looked up without taking ownership "
                                "(another thread can replace the order before it is removed)" % (op, short(operand), role, bad and bad[1]),
                                describe_path(r))
            for kind, o, e in qev:
                if kind in ("push", "park", "rpush"):
                    n += 1
                    bad = borrowed_origin(r, o)
                    chk.require(bad is None, rid, "%s:%s:published" % (b.defp, arm), e[5],
                                "the order put back into the queue is built from %s (a borrowed copy), not from the order taken out" % (bad and bad[1]),
                                describe_path(r))
    chk.require(n >= 10, rid, "operands-found", "", "only %d counter operands / published orders found" % n)


# ----------------------------------------------------------------------------- K3 (= L1 without aliasing)
def rule_balance_conc(ctx, chk, L0, rid):
    for name, L, sfx in [(n, V, sfx) for n in L0.mutators() for V, sfx in L0.views(n)]:
        b, res, _ = L.paths(name)
        for r in res:
            if not usable(chk, rid, b.defp, b.span, r):
                continue
            arm = first_label(r)
            for segname, lo, hi in segments(r):
                d, q, cev, qev, other = L.deltas(r.trace, r.facts, lo, hi)
                for role in ("visible", "hidden", "count"):
                    ok, why = prove_zero(d[role].add(q[role], -1), r.facts)
                    chk.require(ok, rid, "%s%s:%s:%s" % (b.defp, sfx, arm, role), b.span,
                                "taking threads must account for exactly what they own: %s delta %r vs owned queue delta %r (%s)" % (role, d[role], q[role], why),
                                describe_path(r))


# ----------------------------------------------------------------------------- K2 / B4 / L3
def rule_rmw_only(ctx, chk, L, rid):
    n = 0
    for name in L.mutators():
        b, res, _ = L.paths(name)
        for r in res:
            if r.kind in ("unreachable", "panic"):
                continue
            for role, op, operand, e in L.counter_events(r.trace):
                n += 1
                chk.require(op in ("fetch_add", "fetch_sub", "load"), rid, "%s:%s:%s" % (b.defp, role, op), e[5],
                            "the %s aggregate is touched by %s inside a mutator (a split read-modify-write loses updates)" % (role, op), describe_path(r))
                if op in ("fetch_add", "fetch_sub") and operand is not None:
                    chk.require(mentions_eff(operand, {"ATOMIC.load"}) is None, rid, "%s:%s:%s:from-load" % (b.defp, role, op), e[5],
                                "operand %s is recomputed from an atomic load" % short(operand), describe_path(r))
    chk.require(n >= 10, rid, "counter-events-found", "", "only %d counter events" % n)


# ----------------------------------------------------------------------------- B1 / B2 ordering
def rule_order_of_updates(ctx, chk, L, rid_raise, rid_lower):
    for name in L.mutators():
        b, res, _ = L.paths(name)
        for r in res:
            if not usable(chk, rid_raise, b.defp, b.span, r):
                continue
            arm = first_label(r)
            for segname, lo, hi in segments(r):
                seg = r.trace[lo:hi]
                pos = {id(e): i for i, e in enumerate(seg)}
                ids = set(pos)
                cev = [c for c in L.counter_events(r.trace) if id(c[3]) in ids]
                qev = [x for x in L.queue_events(r.trace, r.facts) if id(x[2]) in ids]
                pushes = [pos[id(e)] for k, o, e in qev if k in ("push", "rpush")]
                takes = [pos[id(e)] for k, o, e in qev if k in ("take", "unpark", "rtake")]
                first_push = min(pushes) if pushes else None
                first_take = min(takes) if takes else None
                for role, op, operand, e in cev:
                    p = pos[id(e)]
                    if op == "fetch_add":
                        chk.require(first_push is None or p < first_push, rid_raise, "%s:%s:%s" % (b.defp, arm, role), e[5],
                                    "the %s counter is raised after the order has been published with push: a concurrent cancel/match "
                                    "can subtract it first and a reader sees a wrapped value" % role, describe_path(r))
                    if op == "fetch_sub":
                        chk.require(first_take is not None and p > first_take, rid_lower, "%s:%s:%s" % (b.defp, arm, role), e[5],
                                    "the %s counter is lowered before/without taking the order out of the queue on this path" % role, describe_path(r))


# ----------------------------------------------------------------------------- B3 / L6
def rule_bounded_decrements(ctx, chk, L, rid):
    for name in L.mutators():
        b, res, _ = L.paths(name)
        for r in res:
            if not usable(chk, rid, b.defp, b.span, r):
                continue
            arm = arm_of(r)
            for segname, lo, hi in segments(r):
                d, q, cev, qev, other = L.deltas(r.trace, r.facts, lo, hi)
                taken = [o for k, o, _ in qev if k in ("take", "unpark", "rtake")]
                for role, op, operand, e in cev:
                    if op != "fetch_sub":
                        continue
                    ok, why = bounded_decrement(L, r, role, operand, taken)
                    chk.require(ok, rid, "%s:%s:%s" % (b.defp, arm, role), e[5],
                                "fetch_sub(%s) on %s is not bounded by the contribution of an order owned on this path: %s" % (short(operand), role, why),
                                describe_path(r))


# ----------------------------------------------------------------------------- N1 windows
def rule_windows(ctx, chk, L, rid):
    """an order that stays in the book must never be absent from the id map: flag take(o) ... push/park(o') with id(o')=id(o)"""
    R = L.R
    for name in L.mutators():
        b, res, _ = L.paths(name)
        found = {}
        for r in res:
            if r.kind in ("unreachable", "panic"):
                continue
            arm = first_label(r) if name == "update_order" else ""
            for segname, lo, hi in segments(r):
                seg_ids = set(id(e) for e in r.trace[lo:hi])
                qev = [x for x in L.queue_events(r.trace, r.facts) if id(x[2]) in seg_ids]
                taken = []
                for k, o, e in qev:
                    if k == "take":
                        taken.append(o)
                    elif k in ("push", "park") and taken:
                        for t in taken:
                            if same_id(R, t, o, r.facts):
                                # group by the innermost push site; label with the arm that reaches it at the
                                # shallowest inline depth (the arm whose own code contains the window)
                                inner = e[4][-1]
                                cur = found.get(inner)
                                if cur is None:
                                    found[inner] = (e, r, k, set([arm]))
                                else:
                                    cur[3].add(arm)
        regroup = {}
        for inner, (e, r, k, arms) in found.items():
            # a window is identified by the entry point and the set of update kinds that reach it (not by where the
            # re-insertion code happens to live): moving the amend into a helper keeps the key
            label = "+".join(sorted(a for a in arms if a))
            key = "%s%s" % (b.defp, (":" + label) if label else "")
            regroup.setdefault(key, (e, r, k))
        found = regroup
        for key, (e, r, k) in found.items():
            chk.fail(rid, key, e[5],
                     "the order is taken out of the id map and re-inserted later on the same path (%s): while it is out, a concurrent "
                     "cancel/amend of this surviving order answers not-found" % ("pushed back" if k == "push" else "parked in a local container"),
                     describe_path(r))
        if not found:
            chk.ok(rid, b.defp + ":no-window", b.span)


def same_id(R, taken, pushed, facts):
    vt = R.variant_of(taken, facts)
    if pushed == taken:
        return True
    vp, pfd = R.view(pushed, facts)
    if isinstance(pushed, tuple) and pushed[0] in ("agg", "upd") and vp is not None and pfd is not None:
        idf = R.id_field.get(vp)
        pid = pfd.get(idf)
        if vt is not None and pid == ("field", taken, vt, R.id_field.get(vt)):
            return True
        # derived through an intermediate constructed order
        for s in subterms(pid) if isinstance(pid, tuple) else ():
            if s == taken:
                return True
    return False


# ----------------------------------------------------------------------------- N2 / U2: what the removal arms return
def rule_removal_returns(ctx, chk, L, rid, rid_notfound, seq=False):
    """Cancel / price-move arms: exactly one Q.remove(own id); Some -> returns that very result; None -> Ok(None) and no effects.
    Any Ok(None) of update_order must come from a lookup that missed."""
    b, res, _ = L.paths("update_order")
    upd = ctx.db.adt("orders::update::OrderUpdate")
    arg = ("param", 2)
    seen = {}
    for r in res:
        if r.kind != "return":
            continue
        if seq:
            # single-threaded property: a lookup and a later removal of the same id denote the same order
            r = seq_view(L, r)
            if r is None:
                continue
        arm = r.facts.variant.get(arg)
        if arm is None:
            chk.fail(rid, b.defp + ":no-arm", b.span, "a path does not discriminate the update kind", describe_path(r), undecided=True)
            continue
        v = r.value
        vv = v[2] if isinstance(v, tuple) and v[0] == "agg" else None
        qev = L.queue_events(r.trace, r.facts)
        removes = [(k, o, e) for k, o, e in qev if e[1] == "Q.remove"]
        finds = [(k, o, e) for k, o, e in qev if e[1] == "Q.find"]
        pushes = [(k, o, e) for k, o, e in qev if k in ("push", "park", "rpush")]
        if vv == "Ok":
            inner = dict(v[3])["0"]
            iv = inner[2] if isinstance(inner, tuple) and inner[0] == "agg" else r.facts.variant.get(inner)
            if iv == "None":
                # not-found answers must come from a lookup that missed
                missed = [e for k, o, e in qev if k == "miss"] + [e for k, o, e in finds if r.facts.variant.get(e[3]) == "None"]
                chk.require(bool(missed), rid_notfound, "%s:%s" % (b.defp, arm), b.span,
                            "reports not-found (Ok(None)) although no lookup on this path missed", describe_path(r))
                ups = [c for c in L.counter_events(r.trace) if c[1] != "load"]
                stat = [e for e in r.trace if e[0] == "eff" and e[1].startswith("STAT.")]
                chk.require(not ups and not stat and not pushes, rid_notfound, "%s:%s:no-effect" % (b.defp, arm), b.span,
                            "a not-found answer is accompanied by effects: %s" % ([(c[0], c[1]) for c in ups] + [e[1] for e in stat]), describe_path(r))
            elif iv == "Some" or iv is None:
                if pushes:
                    seen.setdefault(arm, set()).add("amend")
                    continue   # amend path: rule U3
                # a removal path: the answer must be the payload of Q.remove itself
                seen.setdefault(arm, set()).add("remove")
                res_t = removes[0][2][3] if removes else None
                rebuilt = ("agg", "std::option::Option", "Some", (("0", ("field", res_t, "Some", "0")),))
                ok = len(removes) == 1 and (inner == res_t or inner == rebuilt)
                chk.require(ok, rid, "%s:%s" % (b.defp, arm), b.span,
                            "acknowledges %s, which is not the value handed out by the queue's remove (only the map removal "
                            "guarantees exclusive ownership)" % short(inner)[:200], describe_path(r))
                if ok:
                    e = removes[0][2]
                    idt = e[2][1]
                    idf = [f["name"] for vv_ in upd["variants"] if vv_["name"] == arm for f in vv_["fields"] if "OrderId" in f["ty"]]
                    chk.require(len(idf) == 1 and idt == ("field", arg, arm, idf[0]), rid, "%s:%s:own-id" % (b.defp, arm), b.span,
                                "removes id %s, not the update's own order id" % short(idt), describe_path(r))
        elif vv == "Err":
            ups = [c for c in L.counter_events(r.trace) if c[1] != "load"]
            qmut = [x for x in qev if x[0] in ("push", "take", "take?", "park", "rtake", "rpush")]
            chk.require(not ups and not qmut, rid_notfound, "%s:%s:err-no-effect" % (b.defp, arm), b.span,
                        "an error answer is accompanied by effects", describe_path(r))
            seen.setdefault(arm, set()).add("err")
    return seen


# ----------------------------------------------------------------------------- L0 / K2: nobody else writes the level
def level_write_sites(L):
    """[(owner_defp, body_defp, kind, field, span)] for every MIR call / assignment in the crate that mutates an aggregate
    counter or the queue *of a PriceLevel value* (receiver place projects a field of the PriceLevel ADT)"""
    from .effects import classify
    db = L.db
    level = L.level_adt["def"]
    fields = set(L.counter_role) | {L.queue_field}

    def level_field(place):
        for pj in place.get("p", []):
            if pj.get("k") == "field" and pj.get("adt") == level and pj.get("name") in fields:
                return pj["name"]
        return None

    def receiver_field(b, op, depth=0):
        if op.get("k") not in ("copy", "move") or depth > 4:
            return None
        f = level_field(op["place"])
        if f:
            return f
        if op["place"]["p"]:
            return None
        l = op["place"]["l"]
        for blk in b.blocks:
            for s in blk["stmts"]:
                if s["k"] == "assign" and s["place"]["l"] == l and not s["place"]["p"]:
                    rv = s["rv"]
                    if rv["k"] in ("ref", "rawptr"):
                        f = level_field(rv["place"])
                        if f:
                            return f
                        if not [x for x in rv["place"]["p"] if x["k"] != "deref"]:
                            return receiver_field(b, {"k": "copy", "place": {"l": rv["place"]["l"], "p": []}}, depth + 1)
                    if rv["k"] in ("use", "cast") and isinstance(rv.get("op"), dict):
                        return receiver_field(b, rv["op"], depth + 1)
        return None

    out = []
    for d, b in db.bodies.items():
        owner = b
        while owner.kind == "Closure" and owner.parent in db.bodies:
            owner = db.bodies[owner.parent]
        for blk in b.blocks:
            for s in blk["stmts"]:
                if s["k"] == "assign" and not s.get("exp"):
                    f = level_field(s["place"])
                    if f:
                        out.append((owner.defp, d, "assign", f, s.get("span", "")))
        for bb, t in b.calls():
            c = classify(t["callee"])
            if c is None or not t["args"]:
                continue
            mut = (c[0] == "ATOMIC" and c[1] not in ("load", "new", "default", "fmt", "clone")) or (c[0] == "Q" and c[1] in ("push", "pop", "remove"))
            if not mut:
                continue
            f = receiver_field(b, t["args"][0])
            if f:
                out.append((owner.defp, d, "%s.%s" % c, f, t["span"]))
    return out


def rule_unanalysed_writers(ctx, chk, L, rid):
    """every function that writes a level's counters or queue is one of the analysed mutators or is reached (and hence
    inlined) from one: there is no writer the ledger does not see"""
    muts = []
    for name in L.mutators():
        muts.append(L.paths(name)[0].defp)
    reach = set(ctx.cg.reach(muts))
    sites = level_write_sites(L)
    chk.require(len(sites) >= 8, rid, "level-write-sites", "", "only %d write sites found" % len(sites))
    chk.stats["level_write_sites"] = len(sites)
    for owner, d, kind, f, span in sites:
        chk.require(owner in reach or d in reach, rid, "%s:unanalysed-writer" % owner, span,
                    "%s on PriceLevel.%s in %s, which is neither an analysed mutator (%s) nor reached from one" % (
                        kind, f, d, ", ".join(m.split("::")[-1] for m in muts)))


def rule_no_remove_then_push_in_extras(ctx, chk, L, rid):
    """discovered mutators (not add/match/update_order): removing by id leaves the id's ticket in the FIFO, so a later
    push of that id (a rollback, a re-queue) is found at the OLD position - such a function must drain with pop instead.
    Flags Q.remove followed by Q.push anywhere in one call of such a function."""
    for name in L.mutators():
        if "::" not in name:
            continue
        b, res, _ = L.paths(name)
        hit = None
        for r in res:
            if r.kind not in ("return", "backedge"):
                continue
            qs = [e for e in r.trace if e[0] == "eff" and e[1] in ("Q.remove", "Q.push") and e[2] and L.self_field(e[2][0]) == L.queue_field]
            seen_remove = False
            for e in qs:
                if e[1] == "Q.remove":
                    seen_remove = True
                elif seen_remove:
                    hit = (e, r)
                    break
            if hit:
                break
        # a remove in one loop and a push in a later loop of the same function are on different path segments of the
        # walker only when both loops are entered: also look at the function's effect set
        if not hit:
            # ... both on *this* level's queue (a remove here and a push onto another level's queue - `transfer(id,
            # &target)`, a level built from the removed orders - leaves no stale ticket behind a live id)
            has = {"Q.remove": False, "Q.push": False}
            for r in res:
                for e in r.trace:
                    if e[0] == "eff" and e[1] in has and e[2] and L.self_field(e[2][0]) == L.queue_field:
                        has[e[1]] = True
            if has["Q.remove"] and has["Q.push"]:
                hit = (None, None)
        if hit:
            e, r = hit
            chk.fail(rid, "%s:remove-then-push" % b.defp, e[5] if e else b.span,
                     "%s removes orders by id and pushes orders in the same call: the tickets of the removed ids stay in the FIFO, "
                     "so a pushed order with one of those ids takes the old position (drain with pop instead)" % b.name,
                     describe_path(r) if r else None)
        else:
            chk.ok(rid, "%s:remove-then-push" % b.defp, b.span)


def rule_inplace_same_id(ctx, chk, L, rid):
    """an in-place replacement (locked map entry overwritten) keeps the order's id: otherwise the entry's key and the
    id of the order stored under it disagree, and lookups / cancels by id hit the wrong order"""
    n = 0
    for name in L.mutators():
        b, res, _ = L.paths(name)
        for r in res:
            if r.kind not in ("return", "backedge"):
                continue
            qev = L.queue_events(r.trace, r.facts)
            cur = None
            for k, o, e in qev:
                if k == "rtake":
                    cur = o
                elif k == "rpush":
                    n += 1
                    ok = cur is not None and same_id(L.R, cur, o, r.facts)
                    chk.require(ok, rid, "%s:%s:inplace-same-id" % (b.defp, first_label(r)), e[5] or b.span,
                                "the order stored into a locked map entry does not provably have the id of the order it replaces", describe_path(r))
                elif k == "raw":
                    chk.fail(rid, "%s:raw-container-op:%s" % (b.defp, e[1]), e[5] or b.span,
                             "a level mutator reaches %s on the queue's containers through a queue method the level rules have no summary for" % e[1], describe_path(r))
    return n
