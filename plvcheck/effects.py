"""Effect alphabet (DESIGN §3) and E2: per-function direct effects + call-graph closure."""
import re
from .walk import cname
from .db import strip_generics

ATOMIC_RMW = {"fetch_add", "fetch_sub", "fetch_and", "fetch_or", "fetch_xor", "fetch_nand", "fetch_max",
              "fetch_min", "fetch_update", "swap", "compare_exchange", "compare_exchange_weak",
              "compare_and_swap", "store", "get_mut", "into_inner", "as_ptr", "from_ptr", "update", "try_update"}
MAP_MUT = {"insert", "remove", "remove_if", "remove_if_mut", "get_mut", "try_get_mut", "iter_mut", "entry",
           "try_entry", "alter", "alter_all", "retain", "clear", "shrink_to_fit", "extend", "view",
           "try_reserve", "into_read_only"}
MAP_READ = {"get", "try_get", "iter", "len", "is_empty", "contains_key", "capacity", "hasher"}
TICKET_MUT = {"push", "pop", "into_iter"}
NONDET = (
    "std::time::SystemTime::now", "std::time::Instant::now", "uuid::Uuid::new_v4", "uuid::Uuid::now_v1",
    "uuid::Uuid::now_v6", "uuid::Uuid::now_v7", "ulid::Ulid::new", "ulid::Ulid::from_datetime",
    "std::thread::current", "rand::random", "rand::thread_rng", "rand::rng", "std::collections::hash_map::RandomState::new",
)


def classify(callee):
    """-> (class, method) or None.  Classes: ATOMIC, MAP, TICKET, Q, STAT, GEN, TX, RES, NONDET."""
    if callee is None:
        return None
    path = callee["path"]
    cn = cname(path)
    name = callee["name"]
    impl_self = callee.get("impl_self") or ""
    base = strip_generics(impl_self)
    if (base.startswith("std::sync::atomic::Atomic") or base.startswith("core::sync::atomic::Atomic")) and not callee["local"]:
        # (a crate-local extension trait implemented for an atomic type is ordinary code: analysed through its body)
        return ("ATOMIC", name)
    if base.startswith("dashmap::DashMap") or base == "dashmap::DashMap":
        return ("MAP", name)
    if "SegQueue" in base and "crossbeam" in base:
        return ("TICKET", name)
    if callee["local"]:
        if callee["trait"] is None:
            if base.split("::")[-1] == "OrderQueue":
                return ("Q", name)
            if base.endswith("PriceLevelStatistics"):
                return ("STAT", name)
            if base.endswith("UuidGenerator"):
                return ("GEN", name)
            if base.split("::")[-1] == "Transaction" and name == "new":
                return ("TX", name)
            if base.split("::")[-1] == "MatchResult" and name in ("add_transaction", "add_filled_order_id"):
                return ("RES", name)
    for nd in NONDET:
        if cn == nd or cn.endswith("::" + nd):
            return ("NONDET", nd.split("::")[-2] + "::" + nd.split("::")[-1])
    if "rand::" in cn and callee["crate"].startswith("rand"):
        return ("NONDET", cn)
    return None


_REEXPORT = re.compile(r"(?:[A-Za-z_][A-Za-z0-9_]*::)+_::_serde::")


def _norm_reexport(path):
    """rustc prints serde items through the first `extern crate serde as _serde` a derive put into an anonymous const
    (`orders::base::_::_serde::Deserializer`): which one depends on module order, so print them as `serde::`"""
    return _REEXPORT.sub("serde::", path)


def eff_name(c):
    return "%s.%s" % c


def make_effect_fn(classes):
    """effect_of callback for the walker: calls of the given classes are primitive effects."""
    def f(callee, args, st, walker):
        c = classify(callee)
        if c is not None and c[0] in classes:
            return eff_name(c)
        return None
    return f


# ------------------------------------------------------------------------------------------ E2

class CallGraph:
    """Direct effects and call edges per local body; closures are attached to the body that builds them;
    implicit edges: `x.to_string()/format!` -> Display::fmt of local types, `str::parse::<T>` -> T::from_str,
    `Into::into` -> From::from, serde entry points -> local Serialize/Deserialize impls (by type name)."""

    def __init__(self, db):
        self.db = db
        self.direct = {}    # def -> list of (class, method, bb, callee, span)
        self.edges = {}     # def -> set(def)
        self.unknown = {}   # def -> list of callee paths that are local-crate but have no body
        self.external = {}  # def -> set(cname) of non-local callees
        self._build()

    def _build(self):
        db = self.db
        by_trait_impl = {}
        for b in db.bodies.values():
            if b.impl_trait:
                by_trait_impl.setdefault(b.name, []).append(b)
        for d, b in db.bodies.items():
            direct, edges, ext = [], set(), set()
            for bb, t in b.calls():
                callee = t["callee"]
                if callee is None:
                    ext.add("<indirect>")
                    continue
                c = classify(callee)
                if c is not None:
                    direct.append((c[0], c[1], bb, callee, t["span"]))
                p = callee["path"]
                if callee["local"] and p in db.bodies:
                    edges.add(p)
                else:
                    ext.add(_norm_reexport(cname(p)))
                    # implicit edges through generic std entry points
                    for tgt in self._implicit(callee, by_trait_impl):
                        edges.add(tgt)
            # closures constructed here are reachable from here
            for blk in b.blocks:
                for s in blk["stmts"]:
                    if s["k"] == "assign" and s["rv"]["k"] == "agg" and s["rv"].get("agg") == "closure":
                        cd = s["rv"]["def"]
                        if cd in db.bodies:
                            edges.add(cd)
                    # fn items used as values (e.g. `.map(Arc::new)`, `map_err(Error::custom)`)
                    if s["k"] == "assign":
                        for op in _operands_of_rv(s["rv"]):
                            if op.get("k") == "const" and "fn" in op:
                                fp = op["fn"]["path"]
                                if op["fn"]["local"] and fp in db.bodies:
                                    edges.add(fp)
                for a in (blk["term"].get("args") or []):
                    if a.get("k") == "const" and "fn" in a:
                        fp = a["fn"]["path"]
                        if a["fn"]["local"] and fp in db.bodies:
                            edges.add(fp)
                        else:
                            c = classify(a["fn"])
                            if c is not None:
                                direct.append((c[0], c[1], -1, a["fn"], blk["term"]["span"]))
            self.direct[d] = direct
            self.edges[d] = edges
            self.external[d] = ext

    def _implicit(self, callee, by_trait_impl):
        name = callee["name"]
        g = callee["gargs"]
        out = []

        def impls(meth, type_str, trait_sub):
            r = []
            for b in by_trait_impl.get(meth, []):
                if trait_sub in (b.impl_trait or "") and _ty_eq(b.impl_self, type_str):
                    r.append(b.defp)
            return r
        tr = callee["trait"]
        if name == "to_string" and tr == "std::string::ToString" and g:
            out += impls("fmt", g[0], "std::fmt::Display")
        if name == "parse" and cname(callee["path"]) == "core::str::parse" or (name == "parse" and "str" in callee["path"] and len(g) >= 1):
            out += impls("from_str", g[-1], "std::str::FromStr")
        if name == "from_str" and tr == "std::str::FromStr" and g:
            out += impls("from_str", g[0], "std::str::FromStr")
        if name == "into" and tr == "std::convert::Into" and len(g) == 2:
            for b in by_trait_impl.get("from", []):
                if _ty_eq(b.impl_self, g[1]) and ("From<%s>" % g[0]).replace(" ", "") in (b.impl_trait or "").replace(" ", ""):
                    out.append(b.defp)
        if name == "try_into" and len(g) == 2:
            for b in by_trait_impl.get("try_from", []):
                if _ty_eq(b.impl_self, g[1]):
                    out.append(b.defp)
        if name == "fmt" and tr in ("std::fmt::Display", "std::fmt::Debug") and g:
            out += impls("fmt", g[0], tr)
        # format_args!: `Argument::new_display::<T>(&x)` stores <T as Display>::fmt, which write!/format! then calls
        if name.startswith("new_") and "fmt::rt::Argument" in callee["path"] and g:
            trn = {"new_display": "std::fmt::Display", "new_debug": "std::fmt::Debug", "new_lower_hex": "std::fmt::LowerHex",
                   "new_upper_hex": "std::fmt::UpperHex"}.get(name)
            if trn:
                t0 = g[-1]
                while t0.startswith("&"):
                    t0 = t0[1:].lstrip()
                    if t0.startswith("'"):
                        t0 = t0.split(" ", 1)[1] if " " in t0 else t0
                    if t0.startswith("mut "):
                        t0 = t0[4:]
                out += impls("fmt", t0, trn)
        if name == "collect_str" and g:
            # Serializer::collect_str::<T>(&value) formats the value with its Display impl
            for ga in g:
                t0 = ga
                while t0.startswith("&"):
                    t0 = t0[1:].lstrip()
                out += impls("fmt", t0, "std::fmt::Display")
        if callee["crate"] in ("serde_json", "serde", "serde_core"):
            # serde entry points: every local Serialize / Deserialize impl of a type named in the generic args
            n = name.lower()
            de = any(x in n for x in ("deserialize", "from_str", "from_slice", "from_reader", "from_value", "next_element", "next_value", "next_key", "next_entry", "variant", "newtype"))
            ser = any(x in n for x in ("serialize", "to_vec", "to_string", "to_writer", "to_value")) and not n.startswith("deserialize")
            if not de and not ser:
                de = ser = True
            pool = (by_trait_impl.get("serialize", []) if ser else []) + (by_trait_impl.get("deserialize", []) if de else [])
            for ga in g:
                for b in pool:
                    if _ty_is_or_wraps(ga, b.impl_self):
                        out.append(b.defp)
        if name in ("serialize", "deserialize") and tr in ("serde::Serialize", "serde::Deserialize", "serde::ser::Serialize", "serde::de::Deserialize") and g:
            out += impls(name, g[0], "Serialize" if name == "serialize" else "Deserialize")
        return out

    def reach(self, roots):
        seen = set()
        st = list(roots)
        while st:
            d = st.pop()
            if d in seen:
                continue
            seen.add(d)
            st.extend(self.edges.get(d, ()))
        return seen

    def effects_closure(self, root):
        """[(class, method, def, callee, span)] over everything reachable from root"""
        out = []
        for d in sorted(self.reach([root])):
            for c, m, bb, callee, span in self.direct.get(d, []):
                out.append((c, m, d, callee, span))
        return out

    def path_to(self, root, target):
        """shortest call path root -> target (for messages)"""
        from collections import deque
        prev = {root: None}
        q = deque([root])
        while q:
            d = q.popleft()
            if d == target:
                out = []
                while d is not None:
                    out.append(d)
                    d = prev[d]
                return list(reversed(out))
            for e in sorted(self.edges.get(d, ())):
                if e not in prev:
                    prev[e] = d
                    q.append(e)
        return None


def _operands_of_rv(rv):
    k = rv["k"]
    if k in ("use", "cast", "repeat"):
        return [rv["op"]]
    if k == "bin":
        return [rv["a"], rv["b"]]
    if k == "un":
        return [rv["a"]]
    if k == "agg":
        return rv["ops"]
    return []


def _norm_ty(t):
    t = (t or "").replace(" ", "")
    for pre in ("pricelevel::",):
        t = t.replace(pre, "")
    return t


def _ty_eq(a, b):
    a, b = _norm_ty(a), _norm_ty(b)
    return a == b or strip_generics(a) == strip_generics(b)


def _ty_mentions(big, small):
    return strip_generics(_norm_ty(small)) in _norm_ty(big)


def _ty_is_or_wraps(big, small):
    """big is the type `small` itself or a std container of it (Vec<small>, Option<small>, Arc<small>, &small)"""
    b, sm = _norm_ty(big), _norm_ty(small)
    if not sm:
        return False
    if b == sm or strip_generics(b) == strip_generics(sm) and "<" not in sm:
        return True
    import re
    core = re.escape(sm)
    return re.fullmatch(r"(&(mut)?)?((std::vec::Vec|std::option::Option|std::sync::Arc|std::boxed::Box)<)*%s(,[^<>]*)?>*" % core, b) is not None
