//! Reference functions, transcribed from the PROPERTY TEXT (not from the implementation).
//! They are compiled by the same exporter and compared path-by-path with the repository's
//! functions (engine E5).  They are never executed.

pub enum Kind {
    /// Standard, PostOnly, TrailingStop, PeggedOrder, MarketToLimit: "every other type just
    /// shrinks and leaves when filled"
    Plain,
    Iceberg,
    Reserve,
}

pub struct Out {
    /// quantity consumed from the incoming order
    pub consumed: u64,
    /// None: the order leaves the book; Some((displayed, hidden)) afterwards
    pub keep: Option<(u64, u64)>,
    /// quantity moved from hidden to displayed
    pub hidden_reduced: u64,
    /// what is left of the incoming quantity
    pub remaining: u64,
}

/// C05: "consumes exactly the smaller of the incoming quantity and the order's displayed quantity
/// and conserves the order's total ... An iceberg whose display is exhausted shows a new tranche no
/// larger than the exhausted one, taken from hidden quantity, and leaves when nothing is hidden; a
/// reserve order replenishes by its configured amount (default 80, capped by hidden quantity) when
/// its display is exhausted or falls below its threshold (0 counts as 1) and only if auto-replenish
/// is on, otherwise it leaves once its display is exhausted; every other type just shrinks and
/// leaves when filled."
pub fn ref_match(
    kind: Kind,
    display: u64,
    hidden: u64,
    threshold: u64,
    amount: Option<u64>,
    auto: bool,
    incoming: u64,
) -> Out {
    if display <= incoming {
        // display exhausted
        let consumed = display;
        let remaining = incoming - display;
        match kind {
            Kind::Iceberg => {
                if hidden > 0 {
                    let tranche = std::cmp::min(hidden, display);
                    Out { consumed, keep: Some((tranche, hidden - tranche)), hidden_reduced: tranche, remaining }
                } else {
                    Out { consumed, keep: None, hidden_reduced: 0, remaining }
                }
            }
            Kind::Reserve => {
                if hidden > 0 && auto {
                    let amt = std::cmp::min(amount.unwrap_or(80), hidden);
                    Out { consumed, keep: Some((amt, hidden - amt)), hidden_reduced: amt, remaining }
                } else {
                    Out { consumed, keep: None, hidden_reduced: 0, remaining }
                }
            }
            Kind::Plain => Out { consumed, keep: None, hidden_reduced: 0, remaining },
        }
    } else {
        // partial fill of the displayed quantity
        let consumed = incoming;
        let nv = display - incoming;
        match kind {
            Kind::Reserve => {
                let thr = if auto && threshold == 0 { 1 } else { threshold };
                if nv < thr && hidden > 0 && auto {
                    let amt = std::cmp::min(amount.unwrap_or(80), hidden);
                    Out { consumed, keep: Some((nv + amt, hidden - amt)), hidden_reduced: amt, remaining: 0 }
                } else {
                    Out { consumed, keep: Some((nv, hidden)), hidden_reduced: 0, remaining: 0 }
                }
            }
            _ => Out { consumed, keep: Some((nv, hidden)), hidden_reduced: 0, remaining: 0 },
        }
    }
}

/// C07: "A same-price quantity amendment returns the order that now rests, with the new displayed
/// quantity for Standard, PostOnly and Iceberg orders, and leaves every other order and all identity
/// fields untouched."  Returns the (displayed, hidden) pair of the amended order.
pub enum AmendKind {
    /// Standard, PostOnly, IcebergOrder
    Rewrites,
    /// TrailingStop, PeggedOrder, MarketToLimit, ReserveOrder
    Untouched,
}

pub fn ref_amend(kind: AmendKind, display: u64, hidden: u64, new_quantity: u64) -> (u64, u64) {
    match kind {
        AmendKind::Rewrites => (new_quantity, hidden),
        AmendKind::Untouched => (display, hidden),
    }
}

/// C02: "A match result built incrementally keeps remaining = initial - sum of its transactions"
/// (saturating at 0) and "completion is reported exactly when nothing remains".
pub fn ref_add_transaction(remaining: u64, quantity: u64) -> (u64, bool) {
    let r = remaining.saturating_sub(quantity);
    (r, r == 0)
}
