#![allow(non_camel_case_types)]
//! E6 - compile-fail witnesses (thorough tier).  Each `compile_fail,E0616` doctest is paired with a compiling twin
//! (`no_run`: type-checked, never executed) that differs only in the offending access, so a witness whose path is
//! merely wrong cannot pass silently.  They are compiled against /repo's current working tree (path dependency).
//! Item names are the stable witness keys (W_<group>_<field>; T_<group> is the compiling twin).

/// ```compile_fail,E0616
/// let level = pricelevel::PriceLevel::new(100);
/// let _ = level.visible_quantity.load(std::sync::atomic::Ordering::SeqCst);
/// ```
pub struct W_level_visible_quantity;

/// ```compile_fail,E0616
/// let level = pricelevel::PriceLevel::new(100);
/// let _ = level.hidden_quantity.load(std::sync::atomic::Ordering::SeqCst);
/// ```
pub struct W_level_hidden_quantity;

/// ```compile_fail,E0616
/// let level = pricelevel::PriceLevel::new(100);
/// let _ = level.order_count.load(std::sync::atomic::Ordering::SeqCst);
/// ```
pub struct W_level_order_count;

/// ```compile_fail,E0616
/// let level = pricelevel::PriceLevel::new(100);
/// let _ = &level.orders;
/// ```
pub struct W_level_orders;

/// ```compile_fail,E0616
/// let level = pricelevel::PriceLevel::new(100);
/// let _ = &level.stats;
/// ```
pub struct W_level_stats;

/// ```compile_fail,E0616
/// let level = pricelevel::PriceLevel::new(100);
/// let _ = level.price + 1;
/// ```
pub struct W_level_price;

/// ```no_run
/// let level = pricelevel::PriceLevel::new(100);
/// let _ = (level.visible_quantity(), level.hidden_quantity(), level.order_count(), level.iter_orders(), level.stats(), level.price());
/// ```
pub struct T_level;

/// ```compile_fail,E0616
/// let q = pricelevel::OrderQueue::new();
/// let _ = q.orders.len();
/// ```
pub struct W_queue_orders;

/// ```compile_fail,E0616
/// let q = pricelevel::OrderQueue::new();
/// let _ = q.order_ids.len();
/// ```
pub struct W_queue_order_ids;

/// ```no_run
/// let q = pricelevel::OrderQueue::new();
/// let _ = (q.len(), q.is_empty(), q.to_vec());
/// ```
pub struct T_queue;

/// ```compile_fail,E0616
/// let g = pricelevel::UuidGenerator::new(uuid::Uuid::nil());
/// let _ = g.counter.load(std::sync::atomic::Ordering::SeqCst);
/// ```
pub struct W_generator_counter;

/// ```compile_fail,E0616
/// let g = pricelevel::UuidGenerator::new(uuid::Uuid::nil());
/// let _ = g.namespace;
/// ```
pub struct W_generator_namespace;

/// ```no_run
/// let g = pricelevel::UuidGenerator::new(uuid::Uuid::nil());
/// let _ = g.next();
/// ```
pub struct T_generator;
