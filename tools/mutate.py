#!/usr/bin/env python3
"""developer tool: mechanical mutation sweep.  Generates single-site textual mutants of /repo's library source
(classic operators), keeps those that still compile and pass the existing test suite (the tests cannot see them), and
writes them as patches to /verif/mutants/<id>.patch.diff with a one-line description.  Work happens in scratch
worktrees under /tmp/plvmut (removed at the end).   usage: mutate.py [max_mutants] [workers] [seed]"""
import os, random, re, subprocess, sys, json, glob
from concurrent.futures import ThreadPoolExecutor

MAX = int(sys.argv[1]) if len(sys.argv) > 1 else 400
N = int(sys.argv[2]) if len(sys.argv) > 2 else 8
SEED = int(sys.argv[3]) if len(sys.argv) > 3 else 1
BASE = "/tmp/plvmut"
OUT = "/verif/mutants"

OPS2 = [
    (r"\*visible_quantity", "*hidden_quantity"), (r"\*hidden_quantity", "*visible_quantity"),
    (r"\bold_(visible|hidden|order)\b", r"new_\1"), (r"\bnew_(visible|hidden)\b", r"old_\1"),
    (r"Side::Buy", "Side::Sell"), (r"Side::Sell", "Side::Buy"),
    (r"\.timestamp\(\)", ".price()"), (r"\.price\(\)", ".timestamp()"),
    (r"\bconsumed\b(?!,)", "new_remaining"), (r"\bhidden_reduced\b(?! ==| >)", "consumed"),
    (r"unwrap_or\((\w+)\)", "unwrap_or(0)"), (r"\b80\b", "81"),
    (r"\bremaining\b(?= [-+=<>])", "incoming_quantity"),
    (r"\bquantity: \*quantity - incoming_quantity", "quantity: *quantity"),
    (r"order_id\b(?=\))", "taker_order_id"), (r"\.id\(\)", ".id().clone()"),
    (r"\breplenish_qty\b", "*hidden_quantity"), (r"\bsafe_threshold\b", "*replenish_threshold"),
    (r"\.saturating_sub\(", ".wrapping_sub("), (r"\.saturating_add\(", ".wrapping_add("),
    (r"s\.len\(\)", "s.len() - 1"), (r"\+ 1\b", "+ 2"), (r"\.\.=", ".."),
    (r"\.rev\(\)", ""), (r"sort_by_key", "sort_by_cached_key"),
    (r"Arc::new\((\w+)\)", r"Arc::new(\1.clone())"),
]
import os as _os
OPS = [
    (r"<=", "<"), (r"(?<![<=>!-])<(?![<=])(?= )", "<="), (r">=", ">"), (r"(?<![-=>])>(?![>=])(?= )", ">="),
    (r"==", "!="), (r"!=", "=="),
    (r" \+ ", " - "), (r" - ", " + "), (r"\+=", "-="), (r"-=", "+="),
    (r"saturating_sub", "saturating_add"), (r"saturating_add", "saturating_sub"), (r"\.min\(", ".max("), (r"\.max\(", ".min("),
    (r"fetch_add", "fetch_sub"), (r"fetch_sub", "fetch_add"),
    (r"&&", "||"), (r"\|\|", "&&"), (r"\btrue\b", "false"), (r"\bfalse\b", "true"),
    (r"(?<=[=<>] )0\b", "1"), (r"(?<=[=<>] )1\b", "0"), (r"\bis_some\(\)", "is_none()"), (r"\bis_none\(\)", "is_some()"),
    (r"\.push\(", ".push_DELETED("),   # marker: statement deletion handled below
    (r"self\.visible_quantity\b(?!\()", "self.hidden_quantity"), (r"self\.hidden_quantity\b(?!\()", "self.visible_quantity"),
    (r"\.visible_quantity\(\)", ".hidden_quantity()"), (r"\.hidden_quantity\(\)", ".visible_quantity()"),
    (r"Ordering::AcqRel|Ordering::SeqCst|Ordering::Acquire|Ordering::Release", "Ordering::Relaxed"),
    (r"\bbreak;", "continue;"),
    (r"^(\s*(?:\} else )?if )((?!let )[^{]+?)( \{)$", r"\1!(\2)\3"),
]


def source_files():
    out = []
    for f in glob.glob("/repo/src/**/*.rs", recursive=True):
        if "/tests/" in f or f.endswith("/tests.rs"):
            continue
        out.append(f)
    return sorted(out)


def sites():
    res = []
    for f in source_files():
        lines = open(f).read().split("\n")
        in_test = False
        depth_at = None
        for i, ln in enumerate(lines):
            s = ln.strip()
            if s.startswith("#[cfg(test)]"):
                in_test = True
            if in_test:
                continue
            if s.startswith("//") or s.startswith("#[") or s.startswith("use ") or "debug_assert" in s or "trace!" in s or "///" in s:
                continue
            code = ln.split("//")[0]
            if '"' in code and ("write!" in code or "format!" in code or "message" in code or "Err(" in code):
                # keep format strings out of operator mutation (tests pin the text), but allow elsewhere
                pass
            for pat, rep in ([] if _os.environ.get("MUT_OPS") == "3" else OPS2 if _os.environ.get("MUT_OPS") == "2" else OPS):
                if "DELETED" in rep:
                    continue
                for m in re.finditer(pat, code):
                    # skip generic brackets / arrows / lifetimes for < and >
                    seg = code[max(0, m.start() - 1):m.end() + 1]
                    if pat.startswith("(?<![<=>!-])<") or pat.startswith("(?<![-=>])>"):
                        if "->" in code[max(0, m.start() - 2):m.end()] or "=>" in code[max(0, m.start() - 2):m.end() + 1]:
                            continue
                        if not re.search(r"[\w\)\]] [<>] [\w\(\*]", code[max(0, m.start() - 3):m.end() + 3]):
                            continue
                    new = code[:m.start()] + m.expand(rep) + code[m.end():] + (("//" + ln.split("//", 1)[1]) if "//" in ln else "")
                    res.append((f, i, ln, new, "%s -> %s" % (m.group(0).strip()[:40], m.expand(rep).strip()[:40])))
            if _os.environ.get("MUT_OPS") == "3":
                # any single-line statement deleted (not a binding: that rarely compiles) / swapped with the next one
                st = code.strip()
                if st.endswith(";") and not st.startswith(("let ", "use ", "return", "break", "continue", "pub ", "const ", "type ")) and st.count("(") == st.count(")"):
                    res.append((f, i, ln, re.sub(r"\S.*$", "// deleted: " + st.replace("//", ""), ln), "delete any statement"))
                if i + 1 < len(lines):
                    nx = lines[i + 1]
                    s1, s2 = code.strip(), nx.split("//")[0].strip()
                    ind = lambda x: len(x) - len(x.lstrip())
                    if s1.endswith(";") and s2.endswith(";") and ind(ln) == ind(nx) and s1.count("(") == s1.count(")") and s2.count("(") == s2.count(")") \
                            and not s2.startswith(("return", "break", "continue")) and not s1.startswith(("return", "break", "continue")) and s1 != s2:
                        res.append((f, i, ln, nx + "\n" + ln, "swap with next statement"))
                continue
            # statement deletion: a whole-line call statement on self.<...>(...);
            if _os.environ.get("MUT_OPS") != "2" and re.match(r"^\s*(self\.[\w\.]+\([^;]*\);|\w+\.(push|fetch_add|fetch_sub|record_\w+|add_\w+)\([^;]*\);)\s*$", code):
                res.append((f, i, ln, re.sub(r"\S.*$", "// deleted: " + s.replace("//", ""), ln), "delete statement"))
    return res


def run(cmd, cwd, env=None, timeout=900):
    e = dict(os.environ, CARGO_NET_OFFLINE="true")
    if env:
        e.update(env)
    # own process group, so that a timed-out `cargo test` takes its (possibly spinning) test binary with it
    import signal
    p = subprocess.Popen(cmd, cwd=cwd, env=e, stdout=subprocess.PIPE, stderr=subprocess.STDOUT, text=True, start_new_session=True)
    try:
        out, _ = p.communicate(timeout=timeout)
        return p.returncode, out
    except subprocess.TimeoutExpired:
        try:
            os.killpg(p.pid, signal.SIGKILL)
        except ProcessLookupError:
            pass
        p.wait()
        return 124, "timeout"


def worker(k, jobs):
    wt = "%s/w%d" % (BASE, k)
    env = {"CARGO_TARGET_DIR": "%s/t%d" % (BASE, k)}
    out = []
    run(["cargo", "test", "--lib", "--offline", "--no-run"], wt, env)
    for (mid, f, i, old, new, desc) in jobs:
        rel = os.path.relpath(f, "/repo")
        p = os.path.join(wt, rel)
        lines = open(p).read().split("\n")
        if lines[i] != old:
            continue
        if desc == "swap with next statement":
            a, b2 = new.split("\n", 1)
            lines[i], lines[i + 1] = a, b2
        else:
            lines[i] = new
        open(p, "w").write("\n".join(lines))
        rc, log = run(["cargo", "test", "--lib", "--offline", "-q"], wt, env, timeout=300)
        status = "killed"
        if rc == 0:
            rc2, log2 = run(["cargo", "test", "--workspace", "--no-fail-fast", "--offline", "-q"], wt, env, timeout=900)
            if rc2 == 0:
                status = "survived"
                _, diff = run(["git", "diff"], wt)
                open(os.path.join(OUT, "%s.patch.diff" % mid), "w").write(diff)
                json.dump({"id": mid, "file": rel, "line": i + 1, "operator": desc, "old": old.strip(), "new": new.strip()},
                          open(os.path.join(OUT, "%s.json" % mid), "w"), indent=1)
        elif "error" in log and "could not compile" in log:
            status = "nocompile"
        elif rc == 124:
            status = "timeout"
        out.append((mid, status, rel, i + 1, desc))
        run(["git", "checkout", "--", "."], wt)
        print(mid, status, rel, i + 1, desc, flush=True)
    return out


def main():
    random.seed(SEED)
    all_sites = sites()
    random.shuffle(all_sites)
    chosen = all_sites[:MAX]
    print("sites:", len(all_sites), "chosen:", len(chosen), flush=True)
    os.makedirs(OUT, exist_ok=True)
    subprocess.run(["rm", "-rf", BASE]); os.makedirs(BASE)
    subprocess.run(["git", "-C", "/repo", "worktree", "prune"])
    for k in range(N):
        subprocess.run(["git", "-C", "/repo", "worktree", "add", "--detach", "-f", "%s/w%d" % (BASE, k), "HEAD"], capture_output=True)
    jobs = [[] for _ in range(N)]
    for n, (f, i, old, new, desc) in enumerate(chosen):
        jobs[n % N].append(("m%d_%04d" % (SEED, n), f, i, old, new, desc))
    res = []
    with ThreadPoolExecutor(max_workers=N) as ex:
        for r in ex.map(lambda a: worker(*a), list(enumerate(jobs))):
            res += r
    for k in range(N):
        subprocess.run(["git", "-C", "/repo", "worktree", "remove", "--force", "%s/w%d" % (BASE, k)], capture_output=True)
    subprocess.run(["rm", "-rf", BASE]); subprocess.run(["git", "-C", "/repo", "worktree", "prune"])
    cnt = {}
    for _, st, *_ in res:
        cnt[st] = cnt.get(st, 0) + 1
    print("summary:", cnt)
    json.dump([list(r) for r in res], open(os.path.join(OUT, "sweep_%d.json" % SEED), "w"), indent=0)


if __name__ == "__main__":
    main()
