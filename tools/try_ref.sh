#!/bin/bash
# developer tool: apply one patch to a scratch worktree and run one check on it (prints the check's report)
# usage: try_ref.sh <patch> <Cxx> [more plv args]
p=$(realpath $1); shift; c=$1; shift
wt=/tmp/plvtry$$; git -C /repo worktree add --detach -f $wt HEAD >/dev/null 2>&1
{ git -C $wt apply $p 2>/dev/null || git -C $wt apply --3way $p; } || { git -C /repo worktree remove --force $wt; exit 2; }
cd /verif && PLV_REPO=$wt PLV_WORK_TAG=-try$$ ./plv check $c "$@"
git -C /repo worktree remove --force $wt; rm -rf /verif/.work/*-try$$
