#!/usr/bin/env python3
"""developer tool: (re)generate seeded/<id>/meta.json from agent_meta.json + confirm.json + MATRIX.tsv, and print the
DESIGN.md matrix table"""
import json, os, re, sys
S = "/verif/seeded"
mx = {}
for l in open(os.path.join(S, "MATRIX.tsv")):
    if "\t" in l:
        i, r = l.rstrip("\n").split("\t")
        mx[i] = r.split()
rows = []
for d in sorted(os.listdir(S)):
    p = os.path.join(S, d)
    if not os.path.isfile(os.path.join(p, "patch.diff")):
        continue
    am = json.load(open(os.path.join(p, "agent_meta.json"))) if os.path.exists(os.path.join(p, "agent_meta.json")) else {}
    cf = json.load(open(os.path.join(p, "confirm.json"))) if os.path.exists(os.path.join(p, "confirm.json")) else None
    old = json.load(open(os.path.join(p, "meta.json"))) if os.path.exists(os.path.join(p, "meta.json")) else {}
    m = re.match(r"(C\d\d)", d)
    prop = am.get("property") or old.get("property") or (m.group(1) if m else None)
    det = mx.get(d, [])
    meta = {
        "id": d, "property": prop,
        "summary": am.get("summary") or old.get("summary"),
        "needs_to_manifest": am.get("needs_to_manifest") or old.get("needs_to_manifest"),
        "deterministic_demo": am.get("deterministic_demo", old.get("deterministic_demo")),
        "origin": old.get("origin") or ("independent sub-agent given only the property text and a scratch worktree" if am else "revert of a fix: commit (hand made)"),
    }
    if cf is not None:
        meta["confirmed_by_me"] = {"applies": cf.get("applies"), "existing_suite_361_pass_with_change": cf.get("suite_361_passed"),
                                   "demo_fails_with_change": cf.get("demo_exit_with_change") not in ("0", 0, None),
                                   "demo_passes_without_change": cf.get("demo_exit_without_change") in ("0", 0),
                                   "confirmed": cf.get("confirmed")}
    elif "confirmed_by_me" in old:
        meta["confirmed_by_me"] = old["confirmed_by_me"]
    meta["ran"] = old.get("ran") or [
        "tools/confirm_seeds.sh: scratch worktree of /repo HEAD; cargo test --offline --test seed_demo without and with the patch; cargo test --workspace --no-fail-fast --offline with the patch",
        "tools/matrix.sh: scratch worktree of /repo HEAD; git apply; ./plv multi <all 19>"]
    meta["detected_by"] = det
    meta["detected_by_own_property_check"] = bool(prop and any(q in det for q in prop.split(",")))
    for k in ("reverts", "what"):
        if k in old:
            meta[k] = old[k]
    json.dump(meta, open(os.path.join(p, "meta.json"), "w"), indent=1)
    rows.append((d, prop, det, (meta.get("summary") or "")[:110].replace("|", "/").replace("\n", " ")))
for d, prop, det, summ in rows:
    print("| %s | %s | %s | %s |" % (d, prop, " ".join(det), summ))
