#!/bin/bash
# developer tool: import sub-agent output.  usage: import_wave.sh seeds <dir e.g. /tmp/seed12> <tag e.g. w12>
#                                                   import_wave.sh refactors <dir/out> <prefix e.g. agentO1>
set -u
kind=$1; src=$2; tag=$3
if [ "$kind" = seeds ]; then
  for pd in $src/C*/; do pid=$(basename $pd)
    for v in A B; do
      [ -s $pd/out/$v.patch.diff ] && [ -s $pd/out/$v.demo.rs ] || continue
      d=/verif/seeded/${pid}${tag}$v; mkdir -p $d
      cp $pd/out/$v.patch.diff $d/patch.diff; cp $pd/out/$v.demo.rs $d/demo.rs
      [ -s $pd/out/$v.meta.json ] && cp $pd/out/$v.meta.json $d/agent_meta.json
      echo imported $d
    done
  done
else
  for p in $src/*.patch.diff; do n=$(basename $p .patch.diff)
    cp $p /verif/refactors/${tag}$n.patch.diff; [ -f $src/$n.note.txt ] && cp $src/$n.note.txt /verif/refactors/${tag}$n.note.txt
    echo imported ${tag}$n
  done
fi
