#!/bin/bash
# developer tool: run every check against every seeded change (and the four fix reverts); writes seeded/MATRIX.tsv.
# Works in N scratch worktrees of /repo's HEAD (outside /repo and /verif; removed at the end), so /repo itself is
# never patched and the registered checks may run meanwhile.   usage: matrix.sh [glob] [workers]
PAT="${1:-*}"; N="${2:-8}"
ALL="${CHECKS:-C01 C02 C03 C04 C05 C06 C07 C08 C09 C10 C11 C12 C13 C14 C15 C16 C17 C18 C19}"
MX=/tmp/plvmx; OUT=/verif/seeded/MATRIX.tsv
rm -rf $MX; mkdir -p $MX; git -C /repo worktree prune
ids=(); for d in /verif/seeded/*/ ; do id=$(basename $d); [ -f $d/patch.diff ] && [[ "$id" == $PAT ]] && ids+=("$id"); done
worker() {
  k=$1; wt=$MX/w$k
  [ -d $wt ] || { echo "worktree $k missing"; return; }
  i=0
  for id in "${ids[@]}"; do
    i=$((i+1)); [ $(( i % N )) -eq $k ] || continue
    if ! { git -C $wt apply /verif/seeded/$id/patch.diff 2>/dev/null || git -C $wt apply --3way /verif/seeded/$id/patch.diff >/dev/null 2>&1; }; then git -C $wt reset -q --hard; echo -e "$id\tdoes-not-apply" >> $MX/rows.$k; continue; fi
    res=$(cd /verif && PLV_REPO=$wt PLV_WORK_TAG=-mx$k ./plv multi $ALL 2>&1 | grep -E "^C[0-9]+ (VIOLATION|ERROR)" | awk '{print $1}' | tr '\n' ' ')
    git -C $wt reset -q --hard; git -C $wt clean -fdq
    echo -e "$id\t$res" >> $MX/rows.$k
  done
  git -C /repo worktree remove --force $wt
  rm -rf /verif/.work/*-mx$k
}
for k in $(seq 0 $((N-1))); do git -C /repo worktree add --detach -f $MX/w$k HEAD >/dev/null 2>&1; done   # sequentially: concurrent adds race on .git/worktrees
for k in $(seq 0 $((N-1))); do worker $k & done; wait
if [ "$PAT" = "*" ]; then cat $MX/rows.* | sort > $OUT; else
  cat $MX/rows.* | while IFS=$'\t' read id res; do grep -v "^$id	" $OUT > $OUT.tmp; mv $OUT.tmp $OUT; echo -e "$id\t$res" >> $OUT; done; sort -o $OUT $OUT; fi
cat $MX/rows.* | sort
rm -rf $MX; git -C /repo worktree prune
