#!/bin/bash
# developer tool: run every check against every seeded change (and the four fix reverts); writes seeded/MATRIX.tsv
cd /repo || exit 2
if [ -n "$(git status --porcelain --untracked-files=no)" ]; then echo "/repo dirty"; exit 2; fi
ALL="C01 C02 C03 C04 C05 C06 C07 C08 C09 C10 C11 C12 C13 C14 C15 C16 C17 C18 C19"
OUT=/verif/seeded/MATRIX.tsv
[ -z "${1:-}" ] && : > $OUT
for d in /verif/seeded/*/ ; do
  id=$(basename $d)
  [ -f $d/patch.diff ] || continue
  [ -n "${1:-}" ] && [[ "$id" != $1 ]] && continue
  git apply $d/patch.diff || { echo "$id does-not-apply" >> $OUT; continue; }
  res=$(cd /verif && ./plv multi $ALL 2>&1 | grep -E "^C[0-9]+ (VIOLATION|ERROR)" | awk '{print $1}' | tr '\n' ' ')
  git checkout -- .
  echo -e "$id\t$res" | tee -a $OUT
done
