#!/bin/bash
# Confirm every seeded change myself: applies cleanly, compiles, existing suite passes, demo fails with it and passes without.
# Uses ONE scratch worktree + target dir under /tmp/seedconfirm (removed at the end). Writes /verif/seeded/<id>/confirm.json
set -u
W=${CONFIRM_DIR:-/tmp/seedconfirm}
rm -rf $W; mkdir -p $W
git -C /repo worktree add --detach $W/wt HEAD -q
export CARGO_TARGET_DIR=$W/target CARGO_NET_OFFLINE=true
cd $W/wt
for d in /verif/seeded/*/; do
  id=$(basename $d)
  [ -n "${1:-}" ] && [[ "$id" != $1 ]] && continue
  git reset -q --hard; git clean -fdq -- tests src
  applies=false; suite=""; demo_with=""; demo_without=""
  if git apply --check $d/patch.diff 2>/dev/null || git apply --3way --check $d/patch.diff 2>/dev/null; then applies=true; fi
  if $applies; then
    # demo without the change
    cp $d/demo.rs tests/seed_demo.rs
    timeout -k 5 900 cargo test --offline --test seed_demo > $W/log_without.txt 2>&1; demo_without=$?
    git apply $d/patch.diff 2>/dev/null || git apply --3way $d/patch.diff >/dev/null 2>&1
    timeout -k 5 900 cargo test --offline --test seed_demo > $W/log_with.txt 2>&1; demo_with=$?
    rm -f tests/seed_demo.rs
    timeout -k 5 1200 cargo test --workspace --no-fail-fast --offline > $W/log_suite.txt 2>&1; suite=$?
    npass=$(grep -E "^test result: ok\. 361 passed" $W/log_suite.txt | wc -l)
  fi
  python3 - "$d" "$applies" "$suite" "$demo_with" "$demo_without" "${npass:-0}" <<'PY'
import json,sys
d,applies,suite,dw,dwo,npass=sys.argv[1:]
tail=lambda p: open(p,errors='replace').read()[-1500:] if __import__('os').path.exists(p) else ''
json.dump({"applies":applies=="true","suite_exit":suite,"suite_361_passed":npass=="1","demo_exit_with_change":dw,"demo_exit_without_change":dwo,
 "confirmed": applies=="true" and suite=="0" and npass=="1" and dw not in ("0","") and dwo=="0",
 "demo_with_tail":tail(''+__import__("os").environ.get("CONFIRM_DIR","/tmp/seedconfirm")+'/log_with.txt')[-800:]}, open(d+"/confirm.json","w"), indent=1)
PY
  echo "$id $(python3 -c "import json;print(json.load(open('$d/confirm.json'))['confirmed'])")"
done
cd /; git -C /repo worktree remove --force $W/wt; rm -rf $W
