#!/bin/sh
# usage: try_patch.sh <patch.diff> <Cxx> [Cxx...]   -- apply to /repo, run quick checks, always undo
P="$1"; shift
cd /repo || exit 2
if [ -n "$(git status --porcelain --untracked-files=no)" ]; then echo "/repo is dirty, refusing"; exit 2; fi
git apply "$P" || { echo "patch does not apply"; exit 2; }
for c in "$@"; do
  (cd /verif && ./plv check "$c" 2>&1 | grep -E "^(violation|VIOLATION|KNOWN|C[0-9]+ \[|checker error)" | cut -c1-400)
done
git checkout -- . 
