#!/bin/bash
# developer tool: behaviour-preserving refactors must keep every check silent
cd /repo || exit 2
if [ -n "$(git status --porcelain --untracked-files=no)" ]; then echo "/repo dirty"; exit 2; fi
ALL="C01 C02 C03 C04 C05 C06 C07 C08 C09 C10 C11 C12 C13 C14 C15 C16 C17 C18 C19"
rc=0
for p in /verif/refactors/*.patch.diff; do
  git apply $p || { echo "$(basename $p) does-not-apply"; continue; }
  res=$(cd /verif && ./plv multi $ALL 2>&1 | grep -E "^C[0-9]+ (VIOLATION|ERROR)" | cut -c1-120 | tr '\n' ';')
  git checkout -- .
  echo "$(basename $p .patch.diff): ${res:-silent}"
  [ -n "$res" ] && rc=1
done
exit $rc
