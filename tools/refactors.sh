#!/bin/bash
# developer tool: behaviour-preserving refactors must keep every check silent.  Works in N scratch worktrees of /repo's
# HEAD (removed at the end); /repo itself is never patched.   usage: refactors.sh [glob] [workers]
PAT="${1:-*}"; N="${2:-8}"
ALL="${CHECKS:-C01 C02 C03 C04 C05 C06 C07 C08 C09 C10 C11 C12 C13 C14 C15 C16 C17 C18 C19}"
MX=/tmp/plvrf; rm -rf $MX; mkdir -p $MX; git -C /repo worktree prune
ids=(); for p in /verif/refactors/*.patch.diff; do id=$(basename $p .patch.diff); [[ "$id" == $PAT ]] && ids+=("$id"); done
worker() {
  k=$1; wt=$MX/w$k
  [ -d $wt ] || { echo "worktree $k missing"; return; }
  i=0
  for id in "${ids[@]}"; do
    i=$((i+1)); [ $(( i % N )) -eq $k ] || continue
    if ! { git -C $wt apply /verif/refactors/$id.patch.diff 2>/dev/null || git -C $wt apply --3way /verif/refactors/$id.patch.diff >/dev/null 2>&1; }; then git -C $wt reset -q --hard; echo "$id: does-not-apply" >> $MX/rows.$k; continue; fi
    res=$(cd /verif && PLV_REPO=$wt PLV_WORK_TAG=-rf$k ./plv multi $ALL 2>&1 | grep -E "^C[0-9]+ (VIOLATION|ERROR)" | cut -c1-160 | tr '\n' ';')
    git -C $wt reset -q --hard; git -C $wt clean -fdq
    echo "$id: ${res:-silent}" >> $MX/rows.$k
  done
  git -C /repo worktree remove --force $wt
  rm -rf /verif/.work/*-rf$k
}
for k in $(seq 0 $((N-1))); do git -C /repo worktree add --detach -f $MX/w$k HEAD >/dev/null 2>&1; done   # sequentially: concurrent adds race on .git/worktrees
for k in $(seq 0 $((N-1))); do worker $k & done; wait
cat $MX/rows.* | sort
rc=0; cat $MX/rows.* | grep -qv ": silent$" && rc=1
rm -rf $MX; git -C /repo worktree prune
exit $rc
