#!/usr/bin/env python3
"""Regenerate MANIFEST.json from the table below (keeps the file valid at all times)."""
import json, os
HERE = os.path.dirname(os.path.dirname(os.path.abspath(__file__)))
props = [json.loads(l) for l in open(os.path.join(HERE, "properties.jsonl"))]

CHECKS = {}
T_PATH = "static analysis: path-sensitive term-valued dataflow over exported MIR (custom rustc_private driver), effect/ownership rules; no execution, no solver"
T_REF = "static analysis: path-sensitive MIR dataflow + reference-function agreement; no execution, no solver"
T_EFF = "static analysis: effect / call-graph closure and pairing-ordering rules over MIR (custom rustc_private driver); no execution"
NOTE = "Trusted: rustc MIR construction, the exporter, the walker's models of std helpers (Arc/Clone/Try/min/saturating_*), dashmap/crossbeam/serde behaving as documented. Infeasible paths are only pruned syntactically (can cause a spurious report, never a miss)."

def add(pid, technique, design, text, note=NOTE):
    CHECKS[pid] = dict(technique=technique, design_ref=design, text=text, note=note)

add("C01", T_PATH, "DESIGN.md §4 C01",
    "Conservation ledger: on every CFG path of add_order, match_order (per loop iteration, match_against inlined), update_order (all five arms) and every other function discovered (from the MIR, on each run) to write a level's counters or queue, the affine sum of the fetch_add/fetch_sub operands on each aggregate equals the display/hidden/count contribution of the orders pushed minus those taken; constructors are zero+empty or derive the counters from the refreshed snapshot they queue; re-adding constructors only use new()+add_order and hand every decoded order to it; no writer of a level's counters/queue lies outside the analysed set; the listing shows each map entry once. This decides the inductive step of the invariant for every order type and parameter value (a necessary and, with unique ids, sufficient condition); histories are not executed.")
add("C02", T_PATH, "DESIGN.md §4 C02",
    "Loop invariant 'sum of transaction quantities + remaining = requested' as an affine identity on every iteration path of match_order; provenance of each Transaction::new argument (fresh id from the generator passed in, taker param, popped maker id, self.price, consumed, opposite side); transaction iff consumed>0; filled list iff traded and left; add_transaction agrees with a reference; ledger balance for the per-order lifetime bound. Static necessary conditions of the accounting statement; id uniqueness is C14's. Plus the queue primitives read sequentially (push stores the very value it is given under its own id, pop/remove hand out their own map removal, nobody else writes the containers): the order a match meets is the order as last amended.")
add("C03", T_EFF, "DESIGN.md §4 C03",
    "Ownership discipline that makes quantity conservation schedule-independent: every counter delta and every re-queued order is a function of values the operation exclusively owns (payload of pop/remove), applied with atomic RMWs, balanced without any lookup/removal aliasing, and OrderQueue hands an entry out only through its own map removal. Sufficient on paper given linearizable containers; no interleaving is enumerated.")
add("C04", T_EFF, "DESIGN.md §4 C04",
    "Necessary structural conditions of time priority only: FIFO shape of push/pop, order-preserving constructors, insertion only through push, forward drain of parked orders; the two structural deviations of the pinned tree (tail re-queue of an unreplenished survivor, stale tickets) are reported as known findings. The priority relation over histories is not decided. Plus C05's clause consumed = min(incoming, displayed) on every path of match_against (hidden quantity never trades in place).")
add("C05", T_REF, "DESIGN.md §4 C05",
    "All CFG paths of OrderType::match_against (loop-free) are walked over its MIR with term values; for each of the 7 variants every path is compared with the paths of a reference function transcribed from the property text (equal outputs as affine terms under the union of path facts), plus identity-field preservation, arithmetic-guard and conservation rules. Because the function is loop-free and every non-contradictory path pair is compared, agreement is an all-inputs statement about the source.")
add("C06", T_PATH, "DESIGN.md §4 C06",
    "Termination structure of match_order: exits classified by path facts (remaining==0 or queue reported empty), a lexicographic variant (entries, hidden, remaining) provably decreasing on every iteration path that re-inserts the popped order, parked orders provably display 0 and are drained on every exit, OrderQueue::pop consumes a ticket per retry. With C05 this implies on paper that a match returning with quantity left has exhausted displayed liquidity (single-threaded).")
add("C07", T_EFF, "DESIGN.md §4 C07",
    "Purity of 39 read-only entry points by effect closure over the whole-crate call graph (closed world: private fields, checked); dispatch table of update_order (one remove of the own id, result returned as is, price test against self.price, error/not-found without effects), amend returns what it pushed and rewrites the display exactly as the reference for with_reduced_quantity says. Structural necessary conditions, decided on all paths.")
add("C08", T_EFF, "DESIGN.md §4 C08",
    "Publish order inside push (map insert before ticket), every map entry ticketed (who-may-call on the two containers), single hand-out through the map removal, nothing dropped (balance without aliasing, parked orders drained), private storage. Sufficient on paper for 'exactly one taker' given linearizable containers; no schedule is explored.")
add("C09", T_EFF, "DESIGN.md §4 C09",
    "Must-pass-through and provenance rules on the restore path: from_snapshot_json/from_snapshot_package can only obtain a snapshot as the Ok payload of into_snapshot, which returns the untouched field after validate(&self); validate reaches Ok only through the version-equality and the checksum-equality facts; the checksum is the full SHA-256 digest of serde_json::to_vec of the whole snapshot, whose hand-written Serialize emits every field; the hand-written reader rejects unknown/duplicate/missing keys; who-may-read the protected field. With collision resistance and serde_json's totality (trusted) every content-changing edit is rejected. No fault is injected. No skip attribute and no substituted field serializer (serialize_with/with/getter/into/flatten) inside the checksummed type closure.")
add("C10", T_EFF, "DESIGN.md §4 C10",
    "Every construction site of a PriceLevel derives its counters from the orders it queues (refresh_aggregates fold or new()+add_order), carried aggregates of PriceLevelData / the text form are never read, the listing is a timestamp-sorted collect over the map, the snapshot constructors have no error path. Field equality after a trip rests on C16/C17's codec tables.")
add("C14", T_EFF, "DESIGN.md §4 C14",
    "UuidGenerator::next performs exactly one atomic fetch_add(1) and returns new_v5(&self.namespace, bytes(to_string(<that payload>))); the counter is private and written nowhere else; new() stores the namespace unchanged; no nondeterministic source in the closure; one draw per transaction. Sufficient for uniqueness under every interleaving given no SHA-1 collision and no counter wrap.")
add("C11", T_EFF, "DESIGN.md §4 C11",
    "One necessary condition: does the snapshot's order list encode queue position at all (known finding: it is sorted by user timestamp), plus order preservation of the restore path and that nothing else re-orders the listing. Behavioural equivalence over continuations is not statically decided.")
add("C12", T_EFF, "DESIGN.md §4 C12",
    "Ordering rules on every path: counters raised before the order is published, lowered only after it has been taken, decrements bounded by the owned order's contribution, atomic RMW only, each step balanced. These keep 'counter >= entries + in flight' inductive, so no reader can see a wrapped value; argued for sequentially consistent atomics.")
add("C13", T_EFF, "DESIGN.md §4 C13",
    "Typestate-like rules: an order that stays in the book must not leave the id map (two sites do, by construction: known findings), a successful cancel returns the very payload of the map removal for the update's own id, not-found only after a lookup that missed. May-property of sites; no schedule is explored.")
add("C15", T_EFF, "DESIGN.md §4 C15",
    "Pairing rules: record_order_added once per add, record_order_removed once exactly on removal paths, record_execution once per maker visit with the transaction's quantity and the level/maker price; recorder and getter bodies use a single fetch_add/load on the field they name (no lost updates); only statistics.rs writes the named counters.")
add("C16", "static analysis: codec table extraction - writer tables from the expanded AST's format_args! templates, reader tables from MIR term provenance of the parser's result (custom rustc_private driver); table agreement rules; no execution", "DESIGN.md §4 C16",
    "For all 13 Display/FromStr pairs: the tag written equals the literal matched, the key set written equals the key set whose values flow into the parsed value (per variant), key<->field binding is the same on both sides, placeholders are plain Display (or the Debug+upper-case idiom against an upper-casing reader), conversions are str::parse / the field type's own parser without casts, printed field types avoid the separators, unit-enum literals and the None/true/false sentinels agree, list openers/joiners/closers agree and elements use the element parser. Equality parse(print(v)) = v then rests on std/uuid/ulid Display<->parse being inverse (trusted).")
add("C17", "static analysis: serde table and attribute agreement - serialize_field keys/feeding fields and the visitor's literal->variant->slot->field chain from MIR, #[serde(..)] attributes from the expanded AST; no execution", "DESIGN.md §4 C17",
    "Hand-written serde pairs (PriceLevelSnapshot, PriceLevelStatistics, OrderId, OrderQueue, PriceLevel via PriceLevelData): written keys = accepted keys = struct fields with identical binding, strict reader, same element/intermediate types; derived impls: rename(serialize) names are accepted on input and unambiguous, no tag/untagged/skip/default/with/flatten asymmetry, no float fields or int->float casts, snapshot serialization iterates only Vecs (so a decoded package re-validates). serde derive and serde_json are trusted to be mutually inverse for symmetric attributes.")
add("C18", "static analysis: panic-site inventory over the call-graph closure of the parsers + per-site discharge by dominating path facts and inductive loop invariants (custom rustc_private driver); no execution, no fuzzing", "DESIGN.md §4 C18",
    "Every panic-capable site (MIR assert terminators, str/slice/Vec indexing, unwrap/expect/panic family, panicking arithmetic helpers) reachable from the 56 parser entry points is inventoried and must be discharged on every path by a named rule (length guard, prefix/suffix guard, find index, match+len, ASCII byte, char_indices, ordering, bounded sum) using dominating facts and Houdini-style loop invariants; loops must be iterator-driven or advance a bounded cursor; no recursion. Complete for crate-local code under a stated list of trusted-total std/serde callees; inputs are never fed to the parsers.",
    "Trusted: the listed std / uuid / ulid / serde / serde_json callees are total; inputs shorter than 2 GiB; allocation succeeds. Undischargeable sites are reported (fail closed), so an exotic but safe idiom can cause a spurious report.")
add("C19", T_EFF, "DESIGN.md §4 C19",
    "Shape of a ticketed FIFO over one id map on every path of every OrderQueue method: push/pop/remove/find primitives, constructors iterate forward and push each element once, len/is_empty/to_vec/Serialize read the map (never the ticket queue), listing = collect over map iteration sorted by timestamp, nobody else touches the containers. Stale tickets reported as a known finding. Pop order over arbitrary call sequences is not executed.")

def main():
    checks = []
    for p in props:
        pid = p["id"]
        if pid not in CHECKS:
            continue
        c = CHECKS[pid]
        checks.append({
            "property_id": pid,
            "quick_cmd": "./plv check %s --tier quick" % pid,
            "thorough_cmd": "./plv check %s --tier thorough" % pid,
            "evidence_file": "/verif/evidence/%s.json" % pid,
            "replay_cmd_template": "./plv explain {path}",
            "engine": "plvcheck",
            "level_claimed": {"category": "other", "text": c["text"], "design_ref": c["design_ref"]},
            "level_note": c["note"],
            "technique": c["technique"],
        })
    na = [{"property_id": p["id"], "reason": "check not built yet (build phase in progress; see DESIGN.md section 4)"}
          for p in props if p["id"] not in CHECKS]
    m = {
        "version": 1,
        "setup_cmd": "./setup.sh",
        "hooks": {
            "guard": "--cfg pricelevel_verif",
            "enable": "none needed: the checks are static (a rustc_private exporter reads the source); nothing in /repo is instrumented",
            "baseline_off_cmd": "cd /repo && cargo test --workspace --no-fail-fast --offline",
            "source_commits": [],
            "add_only": True,
        },
        "engines": [
            {"name": "plv-driver", "path": "driver/", "serves_properties": sorted(CHECKS), "kind_free_text": "rustc_private exporter: MIR with resolved callees, ADTs, consts, format_args templates, serde attributes (nightly, offline, no crates.io deps)"},
            {"name": "plvcheck", "path": "plvcheck/", "serves_properties": sorted(CHECKS), "kind_free_text": "Python stdlib rule engine: E1 path-sensitive term dataflow, E2 effect/call-graph closure, E3 codec tables, E4 panic-site discharge, E5 reference agreement"},
        ],
        "checks": checks,
        "notes": "Static analysis only; see DESIGN.md. Genuine defects repaired in /repo by four 'fix:' commits (a890e38, 23c021e, 0e1ef80, 29bd39b), recorded in known_findings.json.",
        "not_applicable": na,
    }
    json.dump(m, open(os.path.join(HERE, "MANIFEST.json"), "w"), indent=1)
    print("checks:", [c["property_id"] for c in checks])

if __name__ == "__main__":
    main()
