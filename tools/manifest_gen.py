#!/usr/bin/env python3
"""Regenerate MANIFEST.json from the table below (keeps the file valid at all times)."""
import json, os
HERE = os.path.dirname(os.path.dirname(os.path.abspath(__file__)))
props = [json.loads(l) for l in open(os.path.join(HERE, "properties.jsonl"))]

CHECKS = {
 "C05": dict(
   technique="static analysis: path-sensitive MIR dataflow + reference-function agreement (E5), no execution, no solver",
   design_ref="DESIGN.md §4 C05",
   text="All CFG paths of OrderType::match_against (loop-free) are walked over its MIR with term values; for each of the 7 variants every path is compared with the paths of a reference function transcribed from the property text (equal outputs as affine terms under the union of path facts), plus identity-field preservation, arithmetic-guard and conservation rules. Because the function is loop-free and every non-contradictory path is compared, agreement is an all-inputs statement about the function's source; it is a static argument, not a run.",
   note="Trusted: rustc MIR construction, the walker's models of Ord::min / Option::unwrap_or / Clone / checked arithmetic; precondition displayed+hidden <= u64::MAX. Path-pair infeasibility is only detected syntactically, so an exotic refactor of a comparison could produce a spurious report (never a miss)."),
}

def main():
    checks = []
    for p in props:
        pid = p["id"]
        if pid not in CHECKS:
            continue
        c = CHECKS[pid]
        checks.append({
            "property_id": pid,
            "quick_cmd": "./plv check %s --tier quick" % pid,
            "thorough_cmd": "./plv check %s --tier thorough" % pid,
            "evidence_file": "/verif/evidence/%s.json" % pid,
            "replay_cmd_template": "./plv explain {path}",
            "engine": "plvcheck",
            "level_claimed": {"category": "other", "text": c["text"], "design_ref": c["design_ref"]},
            "level_note": c["note"],
            "technique": c["technique"],
        })
    na = [{"property_id": p["id"], "reason": "check not built yet (build phase in progress; see DESIGN.md section 4)"}
          for p in props if p["id"] not in CHECKS]
    m = {
        "version": 1,
        "setup_cmd": "./setup.sh",
        "hooks": {
            "guard": "--cfg pricelevel_verif",
            "enable": "none needed: the checks are static (a rustc_private exporter reads the source); nothing in /repo is instrumented",
            "baseline_off_cmd": "cd /repo && cargo test --workspace --no-fail-fast --offline",
            "source_commits": [],
            "add_only": True,
        },
        "engines": [
            {"name": "plv-driver", "path": "driver/", "serves_properties": sorted(CHECKS), "kind_free_text": "rustc_private exporter: MIR with resolved callees, ADTs, consts, format_args templates, serde attributes (nightly, offline, no crates.io deps)"},
            {"name": "plvcheck", "path": "plvcheck/", "serves_properties": sorted(CHECKS), "kind_free_text": "Python stdlib rule engine: E1 path-sensitive term dataflow, E2 effect/call-graph closure, E3 codec tables, E4 panic-site discharge, E5 reference agreement"},
        ],
        "checks": checks,
        "notes": "Static analysis only; see DESIGN.md. Genuine defects repaired in /repo by four 'fix:' commits (a890e38, 23c021e, 0e1ef80, 29bd39b), recorded in known_findings.json.",
        "not_applicable": na,
    }
    json.dump(m, open(os.path.join(HERE, "MANIFEST.json"), "w"), indent=1)
    print("checks:", [c["property_id"] for c in checks])

if __name__ == "__main__":
    main()
