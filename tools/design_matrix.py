#!/usr/bin/env python3
"""developer tool: replace the matrix listing in DESIGN.md 10.5 with the content of seeded/MATRIX.tsv"""
import re
p = "/verif/DESIGN.md"
s = open(p).read()
rows = []
for l in open("/verif/seeded/MATRIX.tsv"):
    if "\t" in l:
        i, r = l.rstrip("\n").split("\t")
        rows.append("%-10s %s" % (i, " ".join(r.split())))
m = re.search(r"(rows list the properties whose check reports a violation:\n\n```\n)(.*?)(```\n)", s, re.S)
assert m, "listing not found"
s = s[:m.start(2)] + "\n".join(rows) + "\n" + s[m.end(2):]
open(p, "w").write(s)
print(len(rows), "rows")
