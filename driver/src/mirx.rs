//! MIR / ADT / const export.

use crate::json::J;
use rustc_hir::def::DefKind;
use rustc_hir::def_id::DefId;
use rustc_middle::mir::{
    self, AggregateKind, AssertKind, BinOp, Body, Const, ConstValue, Operand, Place, PlaceElem,
    Rvalue, StatementKind, TerminatorKind,
};
use rustc_middle::ty::{self, Instance, Ty, TyCtxt, TypingEnv};
use rustc_span::Span;

fn span_s(tcx: TyCtxt<'_>, sp: Span) -> J {
    let sm = tcx.sess.source_map();
    let lo = sm.lookup_char_pos(sp.lo());
    let file = match &lo.file.name {
        rustc_span::FileName::Real(r) => match r.local_path() {
            Some(p) => p.display().to_string(),
            None => format!("{:?}", lo.file.name),
        },
        other => format!("{:?}", other),
    };
    J::Str(format!("{}:{}:{}", file, lo.line, lo.col.0 + 1))
}

fn ty_s(t: Ty<'_>) -> J {
    J::Str(t.to_string())
}

fn def_key(tcx: TyCtxt<'_>, d: DefId) -> String {
    tcx.def_path_str(d)
}

pub fn export_crate<'tcx>(tcx: TyCtxt<'tcx>) -> J {
    let mut bodies = vec![];
    for &ldid in tcx.mir_keys(()).iter() {
        let did = ldid.to_def_id();
        let kind = tcx.def_kind(did);
        if !matches!(kind, DefKind::Fn | DefKind::AssocFn | DefKind::Closure) {
            continue;
        }
        if !tcx.is_mir_available(did) {
            continue;
        }
        let body = tcx.optimized_mir(did);
        bodies.push(export_body(tcx, did, kind, body));
    }
    let mut adts = vec![];
    let mut consts = vec![];
    let mut impls = vec![];
    for id in tcx.hir_crate_items(()).definitions() {
        let did = id.to_def_id();
        match tcx.def_kind(did) {
            DefKind::Struct | DefKind::Enum => adts.push(export_adt(tcx, did)),
            DefKind::Const { .. } => {
                if let Some(c) = export_const(tcx, did) {
                    consts.push(c);
                }
            }
            DefKind::Impl { .. } => {
                let self_ty = tcx.type_of(did).instantiate_identity().skip_norm_wip();
                let tr = tcx
                    .impl_opt_trait_ref(did)
                    .map(|t| t.instantiate_identity().skip_norm_wip().to_string());
                impls.push(J::obj(vec![
                    ("def", J::Str(def_key(tcx, did))),
                    ("self_ty", ty_s(self_ty)),
                    ("trait", tr.map(J::Str).unwrap_or(J::Null)),
                    ("span", span_s(tcx, tcx.def_span(did))),
                ]));
            }
            _ => {}
        }
    }
    J::obj(vec![
        ("bodies", J::Arr(bodies)),
        ("adts", J::Arr(adts)),
        ("consts", J::Arr(consts)),
        ("impls", J::Arr(impls)),
    ])
}

fn export_const<'tcx>(tcx: TyCtxt<'tcx>, did: DefId) -> Option<J> {
    if tcx.generics_of(did).requires_monomorphization(tcx) {
        return None;
    }
    let ty = tcx.type_of(did).instantiate_identity().skip_norm_wip();
    if let ty::Ref(_, inner, _) = ty.kind() {
        if inner.is_str() {
            // `const TAG: &str = "..."`
            let val = tcx.const_eval_poly(did).ok()?;
            let bytes = val.try_get_slice_bytes_for_diagnostics(tcx)?;
            let sv = std::str::from_utf8(bytes).ok()?;
            return Some(J::obj(vec![
                ("def", J::Str(def_key(tcx, did))),
                ("ty", ty_s(ty)),
                ("str", J::Str(sv.to_string())),
            ]));
        }
    }
    if !(ty.is_integral() || ty.is_bool()) {
        return None;
    }
    let val = tcx.const_eval_poly(did).ok()?;
    let si = val.try_to_scalar_int()?;
    let bits = si.to_bits_unchecked();
    Some(J::obj(vec![
        ("def", J::Str(def_key(tcx, did))),
        ("ty", ty_s(ty)),
        ("val", J::Int(bits as i128)),
    ]))
}

fn vis_s(tcx: TyCtxt<'_>, v: ty::Visibility<DefId>) -> J {
    match v {
        ty::Visibility::Public => J::s("pub"),
        ty::Visibility::Restricted(d) => {
            if d.is_crate_root() {
                J::s("crate")
            } else {
                J::Str(format!("in:{}", def_key(tcx, d)))
            }
        }
    }
}

fn export_adt<'tcx>(tcx: TyCtxt<'tcx>, did: DefId) -> J {
    let adt = tcx.adt_def(did);
    let mut variants = vec![];
    for (vi, v) in adt.variants().iter_enumerated() {
        let mut fields = vec![];
        for (fi, f) in v.fields.iter_enumerated() {
            let fty = tcx.type_of(f.did).instantiate_identity().skip_norm_wip();
            fields.push(J::obj(vec![
                ("idx", J::Int(fi.as_usize() as i128)),
                ("name", J::Str(f.name.to_string())),
                ("ty", ty_s(fty)),
                ("vis", vis_s(tcx, f.vis)),
            ]));
        }
        variants.push(J::obj(vec![
            ("idx", J::Int(vi.as_usize() as i128)),
            ("name", J::Str(v.name.to_string())),
            ("fields", J::Arr(fields)),
        ]));
    }
    J::obj(vec![
        ("def", J::Str(def_key(tcx, did))),
        ("kind", J::s(if adt.is_enum() { "enum" } else { "struct" })),
        ("vis", vis_s(tcx, tcx.visibility(did))),
        ("variants", J::Arr(variants)),
        ("span", span_s(tcx, tcx.def_span(did))),
    ])
}

struct Cx<'a, 'tcx> {
    tcx: TyCtxt<'tcx>,
    body: &'a Body<'tcx>,
    env: TypingEnv<'tcx>,
}

fn export_body<'tcx>(tcx: TyCtxt<'tcx>, did: DefId, kind: DefKind, body: &Body<'tcx>) -> J {
    let cx = Cx { tcx, body, env: TypingEnv::post_analysis(tcx, did) };
    let mut locals = vec![];
    for (_l, d) in body.local_decls.iter_enumerated() {
        locals.push(J::obj(vec![("ty", ty_s(d.ty)), ("mut", J::Bool(d.mutability.is_mut()))]));
    }
    let mut dbg = vec![];
    for v in &body.var_debug_info {
        if let mir::VarDebugInfoContents::Place(p) = &v.value {
            dbg.push(J::obj(vec![("name", J::Str(v.name.to_string())), ("place", cx.place(p))]));
        }
    }
    let mut blocks = vec![];
    for (_bb, data) in body.basic_blocks.iter_enumerated() {
        let mut stmts = vec![];
        for st in &data.statements {
            if let Some(j) = cx.stmt(st) {
                stmts.push(j);
            }
        }
        let term = data.terminator();
        blocks.push(J::obj(vec![
            ("cleanup", J::Bool(data.is_cleanup)),
            ("stmts", J::Arr(stmts)),
            ("term", cx.term(term)),
        ]));
    }
    // owner info
    let (impl_self, impl_trait) = {
        // closures: walk up to the enclosing fn
        let mut owner = did;
        while matches!(tcx.def_kind(owner), DefKind::Closure) {
            owner = tcx.parent(owner);
        }
        match tcx.impl_of_assoc(owner) {
            Some(imp) => {
                let st = tcx.type_of(imp).instantiate_identity().skip_norm_wip().to_string();
                let tr = tcx
                    .impl_opt_trait_ref(imp)
                    .map(|t| t.instantiate_identity().skip_norm_wip().to_string());
                (J::Str(st), tr.map(J::Str).unwrap_or(J::Null))
            }
            None => (J::Null, J::Null),
        }
    };
    let vis = if matches!(kind, DefKind::Fn | DefKind::AssocFn) {
        vis_s(tcx, tcx.visibility(did))
    } else {
        J::Null
    };
    let parent = if matches!(kind, DefKind::Closure) {
        J::Str(def_key(tcx, tcx.parent(did)))
    } else {
        J::Null
    };
    J::obj(vec![
        ("def", J::Str(def_key(tcx, did))),
        ("kind", J::Str(format!("{:?}", kind))),
        ("name", J::Str(tcx.opt_item_name(did).map(|s| s.to_string()).unwrap_or_default())),
        ("impl_self", impl_self),
        ("impl_trait", impl_trait),
        ("parent", parent),
        ("vis", vis),
        ("span", span_s(tcx, body.span)),
        ("argc", J::Int(body.arg_count as i128)),
        ("locals", J::Arr(locals)),
        ("dbg", J::Arr(dbg)),
        ("blocks", J::Arr(blocks)),
    ])
}

impl<'a, 'tcx> Cx<'a, 'tcx> {
    fn place(&self, p: &Place<'tcx>) -> J {
        let mut proj = vec![];
        let mut pty = mir::PlaceTy::from_ty(self.body.local_decls[p.local].ty);
        for elem in p.projection.iter() {
            let j = match elem {
                PlaceElem::Deref => J::obj(vec![("k", J::s("deref"))]),
                PlaceElem::Field(f, fty) => {
                    let mut kv = vec![
                        ("k", J::s("field")),
                        ("i", J::Int(f.as_usize() as i128)),
                        ("ty", ty_s(fty)),
                    ];
                    if let ty::Adt(adt, _) = pty.ty.kind() {
                        let vidx = pty.variant_index.unwrap_or(rustc_abi::FIRST_VARIANT);
                        if vidx.as_usize() < adt.variants().len() {
                            let v = adt.variant(vidx);
                            if f.as_usize() < v.fields.len() {
                                kv.push(("name", J::Str(v.fields[f].name.to_string())));
                                kv.push(("variant", J::Str(v.name.to_string())));
                                kv.push(("adt", J::Str(def_key(self.tcx, adt.did()))));
                            }
                        }
                    }
                    J::obj(kv)
                }
                PlaceElem::Index(l) => {
                    J::obj(vec![("k", J::s("index")), ("l", J::Int(l.as_usize() as i128))])
                }
                PlaceElem::ConstantIndex { offset, min_length, from_end } => J::obj(vec![
                    ("k", J::s("cindex")),
                    ("offset", J::Int(offset as i128)),
                    ("min_length", J::Int(min_length as i128)),
                    ("from_end", J::Bool(from_end)),
                ]),
                PlaceElem::Subslice { from, to, from_end } => J::obj(vec![
                    ("k", J::s("subslice")),
                    ("from", J::Int(from as i128)),
                    ("to", J::Int(to as i128)),
                    ("from_end", J::Bool(from_end)),
                ]),
                PlaceElem::Downcast(name, v) => J::obj(vec![
                    ("k", J::s("downcast")),
                    ("v", J::Int(v.as_usize() as i128)),
                    ("name", name.map(|s| J::Str(s.to_string())).unwrap_or(J::Null)),
                ]),
                PlaceElem::OpaqueCast(t) => J::obj(vec![("k", J::s("opaque")), ("ty", ty_s(t))]),
                PlaceElem::UnwrapUnsafeBinder(t) => {
                    J::obj(vec![("k", J::s("unwrap_binder")), ("ty", ty_s(t))])
                }
            };
            proj.push(j);
            pty = pty.projection_ty(self.tcx, elem);
        }
        J::obj(vec![("l", J::Int(p.local.as_usize() as i128)), ("p", J::Arr(proj))])
    }

    fn fn_ref(&self, def_id: DefId, args: ty::GenericArgsRef<'tcx>) -> J {
        let tcx = self.tcx;
        let declared = tcx.def_path_str(def_id);
        let declared_args = tcx.def_path_str_with_args(def_id, args);
        let mut resolved_def = def_id;
        let mut resolved_args = args;
        let mut resolved = false;
        let mut rkind = String::from("none");
        if matches!(tcx.def_kind(def_id), DefKind::Fn | DefKind::AssocFn | DefKind::Closure) {
            if let Ok(Some(inst)) = Instance::try_resolve(tcx, self.env, def_id, args) {
                resolved_def = inst.def_id();
                resolved_args = inst.args;
                resolved = true;
                rkind = match inst.def {
                    ty::InstanceKind::Item(_) => "item".into(),
                    ty::InstanceKind::Intrinsic(_) => "intrinsic".into(),
                    ty::InstanceKind::Virtual(..) => "virtual".into(),
                    ty::InstanceKind::ClosureOnceShim { .. } => "closure_once_shim".into(),
                    ty::InstanceKind::FnPtrShim(..) => "fnptr_shim".into(),
                    ty::InstanceKind::CloneShim(..) => "clone_shim".into(),
                    ty::InstanceKind::DropGlue(..) => "drop_glue".into(),
                    ty::InstanceKind::ReifyShim(..) => "reify_shim".into(),
                    ty::InstanceKind::VTableShim(..) => "vtable_shim".into(),
                    _ => "other".into(),
                };
            }
        }
        let path = tcx.def_path_str(resolved_def);
        let path_args = tcx.def_path_str_with_args(resolved_def, resolved_args);
        let trait_of = tcx.trait_of_assoc(def_id).map(|t| tcx.def_path_str(t));
        let impl_self = tcx
            .impl_of_assoc(resolved_def)
            .map(|i| tcx.type_of(i).instantiate_identity().skip_norm_wip().to_string());
        let gargs: Vec<J> = args.iter().map(|a| J::Str(a.to_string())).collect();
        J::obj(vec![
            ("path", J::Str(path)),
            ("path_args", J::Str(path_args)),
            ("declared", J::Str(declared)),
            ("declared_args", J::Str(declared_args)),
            ("resolved", J::Bool(resolved)),
            ("rkind", J::Str(rkind)),
            ("trait", trait_of.map(J::Str).unwrap_or(J::Null)),
            ("impl_self", impl_self.map(J::Str).unwrap_or(J::Null)),
            ("local", J::Bool(resolved_def.is_local())),
            ("crate", J::Str(tcx.crate_name(resolved_def.krate).to_string())),
            ("gargs", J::Arr(gargs)),
            ("name", J::Str(tcx.opt_item_name(resolved_def).map(|s| s.to_string()).unwrap_or_default())),
        ])
    }

    fn constant(&self, c: &mir::ConstOperand<'tcx>) -> J {
        let tcx = self.tcx;
        let ty = c.const_.ty();
        let mut kv: Vec<(&str, J)> = vec![("k", J::s("const")), ("ty", ty_s(ty))];
        match ty.kind() {
            ty::FnDef(d, args) => {
                kv.push(("fn", self.fn_ref(*d, args)));
                return J::obj(kv);
            }
            _ => {}
        }
        // evaluated value where cheap
        let evald: Option<ConstValue> = match c.const_ {
            Const::Val(v, _) => Some(v),
            Const::Unevaluated(uv, _) => {
                kv.push(("uneval", J::Str(tcx.def_path_str(uv.def))));
                if let Some(p) = uv.promoted {
                    kv.push(("promoted", J::Bool(true)));
                    // a promoted `&"literal"` (type &&str): recover the literal from the promoted body
                    if uv.def.is_local() {
                        let proms = tcx.promoted_mir(uv.def);
                        if p.as_usize() < proms.len() {
                            let pb = &proms[p];
                            let mut lits: Vec<String> = vec![];
                            for bbd in pb.basic_blocks.iter() {
                                for st in &bbd.statements {
                                    if let StatementKind::Assign(box (_, Rvalue::Use(Operand::Constant(pc), _))) = &st.kind {
                                        let pv: Option<ConstValue> = match pc.const_ {
                                            Const::Val(v, _) => Some(v),
                                            // `&NAMED_CONST` where `const NAMED_CONST: &str = "..."`
                                            _ => pc.const_.eval(tcx, self.env, pc.span).ok(),
                                        };
                                        if let Some(v) = pv {
                                            if let ConstValue::Slice { .. } = v {
                                                if let Some(bytes) = v.try_get_slice_bytes_for_diagnostics(tcx) {
                                                    if let Ok(sv) = std::str::from_utf8(bytes) {
                                                        lits.push(sv.to_string());
                                                    }
                                                }
                                            }
                                        }
                                    }
                                }
                            }
                            if lits.len() == 1 && format!("{}", ty).ends_with("&str") {
                                kv.push(("pstr", J::Str(lits.remove(0))));
                            }
                            // a promoted `&Enum::UnitVariant`: recover the variant from the promoted body
                            let mut units: Vec<(String, String)> = vec![];
                            let mut other_aggs = 0;
                            for bbd in pb.basic_blocks.iter() {
                                for st in &bbd.statements {
                                    if let StatementKind::Assign(box (_, Rvalue::Aggregate(box ak, ops))) = &st.kind {
                                        match ak {
                                            AggregateKind::Adt(d, vi, _, _, _) if ops.is_empty() && tcx.adt_def(*d).is_enum() => {
                                                let adt = tcx.adt_def(*d);
                                                units.push((def_key(tcx, *d), adt.variant(*vi).name.to_string()));
                                            }
                                            _ => other_aggs += 1,
                                        }
                                    }
                                }
                            }
                            if units.len() == 1 && other_aggs == 0 {
                                let (a, v) = units.remove(0);
                                kv.push(("penum_adt", J::Str(a)));
                                kv.push(("penum_variant", J::Str(v)));
                            }
                        }
                    }
                }
                c.const_.eval(tcx, self.env, c.span).ok()
            }
            Const::Ty(..) => c.const_.eval(tcx, self.env, c.span).ok(),
        };
        if let Some(v) = evald {
            match v {
                ConstValue::Scalar(mir::interpret::Scalar::Int(si)) => {
                    let bits = si.to_bits_unchecked();
                    let size = si.size().bytes();
                    let val: i128 = if ty.is_signed() {
                        // sign extend
                        let shift = 128 - (size * 8) as u32;
                        if shift >= 128 { 0 } else { ((bits << shift) as i128) >> shift }
                    } else {
                        bits as i128
                    };
                    kv.push(("int", J::Int(val)));
                    if ty.is_char() {
                        if let Some(ch) = char::from_u32(bits as u32) {
                            kv.push(("char", J::Str(ch.to_string())));
                        }
                    }
                }
                ConstValue::ZeroSized => {
                    kv.push(("zst", J::Bool(true)));
                }
                ConstValue::Slice { .. } => {
                    if let Some(bytes) = v.try_get_slice_bytes_for_diagnostics(tcx) {
                        match std::str::from_utf8(bytes) {
                            Ok(s) => kv.push(("str", J::s(s))),
                            Err(_) => kv.push((
                                "bytes",
                                J::Arr(bytes.iter().map(|b| J::Int(*b as i128)).collect()),
                            )),
                        }
                    }
                }
                _ => {}
            }
        }
        kv.push(("text", J::Str(format!("{}", c.const_))));
        J::obj(kv)
    }

    fn operand(&self, o: &Operand<'tcx>) -> J {
        match o {
            Operand::Copy(p) => J::obj(vec![("k", J::s("copy")), ("place", self.place(p))]),
            Operand::Move(p) => J::obj(vec![("k", J::s("move")), ("place", self.place(p))]),
            Operand::Constant(c) => self.constant(c),
            _ => J::obj(vec![("k", J::s("runtime_checks"))]),
        }
    }

    fn rvalue(&self, r: &Rvalue<'tcx>) -> J {
        match r {
            Rvalue::Use(o, _) => J::obj(vec![("k", J::s("use")), ("op", self.operand(o))]),
            Rvalue::Repeat(o, n) => J::obj(vec![
                ("k", J::s("repeat")),
                ("op", self.operand(o)),
                ("n", J::Str(n.to_string())),
            ]),
            Rvalue::Ref(_, bk, p) => J::obj(vec![
                ("k", J::s("ref")),
                ("mut", J::Bool(matches!(bk, mir::BorrowKind::Mut { .. }))),
                ("place", self.place(p)),
            ]),
            Rvalue::ThreadLocalRef(d) => {
                J::obj(vec![("k", J::s("tls")), ("def", J::Str(def_key(self.tcx, *d)))])
            }
            Rvalue::RawPtr(_, p) => J::obj(vec![("k", J::s("rawptr")), ("place", self.place(p))]),
            Rvalue::Cast(ck, o, t) => J::obj(vec![
                ("k", J::s("cast")),
                ("cast", J::Str(format!("{:?}", ck))),
                ("op", self.operand(o)),
                ("ty", ty_s(*t)),
            ]),
            Rvalue::BinaryOp(op, box (a, b)) => J::obj(vec![
                ("k", J::s("bin")),
                ("op", J::Str(format!("{:?}", op))),
                ("a", self.operand(a)),
                ("b", self.operand(b)),
            ]),
            Rvalue::UnaryOp(op, a) => J::obj(vec![
                ("k", J::s("un")),
                ("op", J::Str(format!("{:?}", op))),
                ("a", self.operand(a)),
            ]),
            Rvalue::Discriminant(p) => {
                let pty = p.ty(self.body, self.tcx).ty;
                let mut kv = vec![("k", J::s("discr")), ("place", self.place(p)), ("ty", ty_s(pty))];
                if let ty::Adt(adt, _) = pty.kind() {
                    if adt.is_enum() {
                        let mut vs = vec![];
                        for (vi, d) in adt.discriminants(self.tcx) {
                            vs.push(J::obj(vec![
                                ("idx", J::Int(vi.as_usize() as i128)),
                                ("val", J::Int(d.val as i128)),
                                ("name", J::Str(adt.variant(vi).name.to_string())),
                            ]));
                        }
                        kv.push(("variants", J::Arr(vs)));
                        kv.push(("adt", J::Str(def_key(self.tcx, adt.did()))));
                    }
                }
                J::obj(kv)
            }
            Rvalue::Aggregate(box ak, ops) => {
                let mut kv = vec![("k", J::s("agg"))];
                let mut names: Vec<J> = vec![];
                match ak {
                    AggregateKind::Array(t) => {
                        kv.push(("agg", J::s("array")));
                        kv.push(("ty", ty_s(*t)));
                    }
                    AggregateKind::Tuple => kv.push(("agg", J::s("tuple"))),
                    AggregateKind::Adt(d, vi, _args, _, active) => {
                        let adt = self.tcx.adt_def(*d);
                        let v = adt.variant(*vi);
                        kv.push(("agg", J::s("adt")));
                        kv.push(("adt", J::Str(def_key(self.tcx, *d))));
                        kv.push(("variant", J::Str(v.name.to_string())));
                        kv.push(("vidx", J::Int(vi.as_usize() as i128)));
                        kv.push(("is_enum", J::Bool(adt.is_enum())));
                        if let Some(a) = active {
                            names.push(J::Str(v.fields[*a].name.to_string()));
                        } else {
                            for f in v.fields.iter() {
                                names.push(J::Str(f.name.to_string()));
                            }
                        }
                    }
                    AggregateKind::Closure(d, _) => {
                        kv.push(("agg", J::s("closure")));
                        kv.push(("def", J::Str(def_key(self.tcx, *d))));
                    }
                    AggregateKind::Coroutine(d, _) | AggregateKind::CoroutineClosure(d, _) => {
                        kv.push(("agg", J::s("coroutine")));
                        kv.push(("def", J::Str(def_key(self.tcx, *d))));
                    }
                    AggregateKind::RawPtr(t, _) => {
                        kv.push(("agg", J::s("rawptr")));
                        kv.push(("ty", ty_s(*t)));
                    }
                }
                kv.push(("names", J::Arr(names)));
                kv.push(("ops", J::Arr(ops.iter().map(|o| self.operand(o)).collect())));
                J::obj(kv)
            }
            Rvalue::CopyForDeref(p) => J::obj(vec![
                ("k", J::s("use")),
                ("op", J::obj(vec![("k", J::s("copy")), ("place", self.place(p))])),
            ]),
            Rvalue::WrapUnsafeBinder(o, _) => {
                J::obj(vec![("k", J::s("use")), ("op", self.operand(o))])
            }
        }
    }

    fn stmt(&self, st: &mir::Statement<'tcx>) -> Option<J> {
        let sp = st.source_info.span;
        match &st.kind {
            StatementKind::Assign(box (p, r)) => Some(J::obj(vec![
                ("k", J::s("assign")),
                ("place", self.place(p)),
                ("rv", self.rvalue(r)),
                ("span", span_s(self.tcx, sp)),
                ("exp", J::Bool(sp.from_expansion())),
            ])),
            StatementKind::SetDiscriminant { place, variant_index } => Some(J::obj(vec![
                ("k", J::s("setdiscr")),
                ("place", self.place(place)),
                ("v", J::Int(variant_index.as_usize() as i128)),
                ("span", span_s(self.tcx, sp)),
            ])),
            StatementKind::Intrinsic(box i) => Some(J::obj(vec![
                ("k", J::s("intrinsic")),
                ("text", J::Str(format!("{:?}", i))),
                ("span", span_s(self.tcx, sp)),
            ])),
            _ => None,
        }
    }

    fn bb(b: mir::BasicBlock) -> J {
        J::Int(b.as_usize() as i128)
    }

    fn unwind(u: &mir::UnwindAction) -> J {
        match u {
            mir::UnwindAction::Cleanup(b) => Self::bb(*b),
            _ => J::Null,
        }
    }

    fn term(&self, t: &mir::Terminator<'tcx>) -> J {
        let sp = t.source_info.span;
        let mut kv: Vec<(&str, J)> = vec![];
        match &t.kind {
            TerminatorKind::Goto { target } => {
                kv.push(("k", J::s("goto")));
                kv.push(("target", Self::bb(*target)));
            }
            TerminatorKind::SwitchInt { discr, targets } => {
                kv.push(("k", J::s("switch")));
                kv.push(("discr", self.operand(discr)));
                kv.push(("ty", ty_s(discr.ty(self.body, self.tcx))));
                let mut ts = vec![];
                for (v, b) in targets.iter() {
                    ts.push(J::Arr(vec![J::Int(v as i128), Self::bb(b)]));
                }
                kv.push(("targets", J::Arr(ts)));
                kv.push(("otherwise", Self::bb(targets.otherwise())));
            }
            TerminatorKind::UnwindResume => kv.push(("k", J::s("resume"))),
            TerminatorKind::UnwindTerminate(_) => kv.push(("k", J::s("terminate"))),
            TerminatorKind::Return => kv.push(("k", J::s("return"))),
            TerminatorKind::Unreachable => kv.push(("k", J::s("unreachable"))),
            TerminatorKind::Drop { place, target, unwind, .. } => {
                kv.push(("k", J::s("drop")));
                kv.push(("place", self.place(place)));
                kv.push(("target", Self::bb(*target)));
                kv.push(("unwind", Self::unwind(unwind)));
            }
            TerminatorKind::Call { func, args, destination, target, unwind, .. } => {
                kv.push(("k", J::s("call")));
                let fty = func.ty(self.body, self.tcx);
                if let ty::FnDef(d, a) = fty.kind() {
                    kv.push(("callee", self.fn_ref(*d, a)));
                } else {
                    // indirect call through a fn pointer / dyn: keep the operand
                    kv.push(("callee", J::Null));
                    kv.push(("func", self.operand(func)));
                    kv.push(("fty", ty_s(fty)));
                }
                kv.push(("args", J::Arr(args.iter().map(|a| self.operand(&a.node)).collect())));
                kv.push((
                    "arg_tys",
                    J::Arr(args.iter().map(|a| ty_s(a.node.ty(self.body, self.tcx))).collect()),
                ));
                kv.push(("dest", self.place(destination)));
                kv.push(("target", target.map(Self::bb).unwrap_or(J::Null)));
                kv.push(("unwind", Self::unwind(unwind)));
            }
            TerminatorKind::TailCall { func, args, .. } => {
                kv.push(("k", J::s("tailcall")));
                kv.push(("func", self.operand(func)));
                kv.push(("args", J::Arr(args.iter().map(|a| self.operand(&a.node)).collect())));
            }
            TerminatorKind::Assert { cond, expected, msg, target, unwind } => {
                kv.push(("k", J::s("assert")));
                kv.push(("cond", self.operand(cond)));
                kv.push(("expected", J::Bool(*expected)));
                let (mk, ops): (String, Vec<J>) = match &**msg {
                    AssertKind::BoundsCheck { len, index } => {
                        ("bounds".into(), vec![self.operand(len), self.operand(index)])
                    }
                    AssertKind::Overflow(op, a, b) => (
                        format!("overflow:{}", binop_s(*op)),
                        vec![self.operand(a), self.operand(b)],
                    ),
                    AssertKind::OverflowNeg(a) => ("overflow_neg".into(), vec![self.operand(a)]),
                    AssertKind::DivisionByZero(a) => ("div_zero".into(), vec![self.operand(a)]),
                    AssertKind::RemainderByZero(a) => ("rem_zero".into(), vec![self.operand(a)]),
                    AssertKind::MisalignedPointerDereference { .. } => ("misaligned".into(), vec![]),
                    AssertKind::NullPointerDereference => ("nullptr".into(), vec![]),
                    AssertKind::InvalidEnumConstruction(_) => ("invalid_enum".into(), vec![]),
                    _ => ("other".into(), vec![]),
                };
                kv.push(("msg", J::Str(mk)));
                kv.push(("ops", J::Arr(ops)));
                kv.push(("target", Self::bb(*target)));
                kv.push(("unwind", Self::unwind(unwind)));
            }
            TerminatorKind::FalseEdge { real_target, .. } => {
                kv.push(("k", J::s("goto")));
                kv.push(("target", Self::bb(*real_target)));
            }
            TerminatorKind::FalseUnwind { real_target, .. } => {
                kv.push(("k", J::s("goto")));
                kv.push(("target", Self::bb(*real_target)));
            }
            other => {
                kv.push(("k", J::s("other")));
                kv.push(("text", J::Str(format!("{:?}", other))));
            }
        }
        kv.push(("span", span_s(self.tcx, sp)));
        kv.push(("exp", J::Bool(sp.from_expansion())));
        if sp.from_expansion() {
            kv.push(("cs", span_s(self.tcx, sp.source_callsite())));
        }
        J::obj(kv)
    }
}

fn binop_s(op: BinOp) -> String {
    format!("{:?}", op)
}
