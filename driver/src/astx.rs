//! Expanded-AST export: `format_args!` templates and serde attributes.

use crate::json::J;
use rustc_ast::visit::{self, AssocCtxt, Visitor};
use rustc_ast::{self as ast, FormatArgsPiece, FormatArgumentKind, ItemKind};
use rustc_ast_pretty::pprust;
use rustc_middle::ty::TyCtxt;
use rustc_span::Span;

struct V<'a, 'tcx> {
    tcx: TyCtxt<'tcx>,
    scope: Vec<String>,    // mod / impl / fn names
    impl_self: Vec<String>,
    impl_trait: Vec<String>,
    fns: Vec<String>,
    arms: Vec<String>,
    fmt: &'a mut Vec<J>,
    attrs: &'a mut Vec<J>,
    adt: Vec<String>,
}

fn span_s(tcx: TyCtxt<'_>, sp: Span) -> String {
    let sm = tcx.sess.source_map();
    let lo = sm.lookup_char_pos(sp.lo());
    let file = match &lo.file.name {
        rustc_span::FileName::Real(r) => match r.local_path() {
            Some(p) => p.display().to_string(),
            None => format!("{:?}", lo.file.name),
        },
        other => format!("{:?}", other),
    };
    format!("{}:{}:{}", file, lo.line, lo.col.0 + 1)
}

impl<'a, 'tcx> V<'a, 'tcx> {
    fn collect_attrs(&mut self, kind: &str, owner: String, attrs: &[ast::Attribute], sp: Span) {
        for a in attrs {
            let is = |n: &str| a.has_name(rustc_span::Symbol::intern(n));
            if is("serde") || is("derive") || is("automatically_derived") || is("cfg") || is("cfg_attr") {
                self.attrs.push(J::obj(vec![
                    ("kind", J::s(kind)),
                    ("owner", J::Str(owner.clone())),
                    ("adt", J::Str(self.adt.last().cloned().unwrap_or_default())),
                    ("mod", J::Str(self.scope.join("::"))),
                    ("text", J::Str(pprust::attribute_to_string(a))),
                    ("span", J::Str(span_s(self.tcx, sp))),
                ]));
            }
        }
    }
}

impl<'a, 'tcx, 'ast> Visitor<'ast> for V<'a, 'tcx> {
    fn visit_item(&mut self, item: &'ast ast::Item) {
        match &item.kind {
            ItemKind::Mod(_, ident, _) => {
                self.scope.push(ident.name.to_string());
                visit::walk_item(self, item);
                self.scope.pop();
            }
            ItemKind::Impl(imp) => {
                let st = pprust::ty_to_string(&imp.self_ty);
                let tr = imp
                    .of_trait
                    .as_ref()
                    .map(|t| pprust::path_to_string(&t.trait_ref.path))
                    .unwrap_or_default();
                self.collect_attrs("impl", format!("impl {} for {}", tr, st), &item.attrs, item.span);
                self.impl_self.push(st);
                self.impl_trait.push(tr);
                visit::walk_item(self, item);
                self.impl_self.pop();
                self.impl_trait.pop();
            }
            ItemKind::Fn(f) => {
                self.fns.push(f.ident.name.to_string());
                visit::walk_item(self, item);
                self.fns.pop();
            }
            ItemKind::Enum(ident, ..) | ItemKind::Struct(ident, ..) => {
                let name = ident.name.to_string();
                self.collect_attrs("item", name.clone(), &item.attrs, item.span);
                self.adt.push(name);
                visit::walk_item(self, item);
                self.adt.pop();
            }
            _ => visit::walk_item(self, item),
        }
    }

    fn visit_assoc_item(&mut self, item: &'ast ast::AssocItem, ctxt: AssocCtxt) {
        if let ast::AssocItemKind::Fn(f) = &item.kind {
            self.fns.push(f.ident.name.to_string());
            visit::walk_assoc_item(self, item, ctxt);
            self.fns.pop();
        } else {
            visit::walk_assoc_item(self, item, ctxt);
        }
    }

    fn visit_variant(&mut self, v: &'ast ast::Variant) {
        self.collect_attrs("variant", v.ident.name.to_string(), &v.attrs, v.span);
        self.adt.push(format!("{}::{}", self.adt.last().cloned().unwrap_or_default(), v.ident.name));
        visit::walk_variant(self, v);
        self.adt.pop();
    }

    fn visit_field_def(&mut self, f: &'ast ast::FieldDef) {
        let name = f.ident.map(|i| i.name.to_string()).unwrap_or_default();
        self.collect_attrs("field", name, &f.attrs, f.span);
        visit::walk_field_def(self, f);
    }

    fn visit_arm(&mut self, arm: &'ast ast::Arm) {
        self.arms.push(pprust::pat_to_string(&arm.pat));
        visit::walk_arm(self, arm);
        self.arms.pop();
    }

    fn visit_expr(&mut self, e: &'ast ast::Expr) {
        if let ast::ExprKind::FormatArgs(fa) = &e.kind {
            let mut pieces = vec![];
            for p in &fa.template {
                match p {
                    FormatArgsPiece::Literal(s) => {
                        pieces.push(J::obj(vec![("lit", J::Str(s.to_string()))]));
                    }
                    FormatArgsPiece::Placeholder(ph) => {
                        let idx = match ph.argument.index {
                            Ok(i) => i as i128,
                            Err(_) => -1,
                        };
                        pieces.push(J::obj(vec![
                            ("arg", J::Int(idx)),
                            ("trait", J::Str(format!("{:?}", ph.format_trait))),
                            ("opts", J::Str(format!("{:?}", ph.format_options))),
                        ]));
                    }
                }
            }
            let mut args = vec![];
            for a in fa.arguments.all_args() {
                let kind = match &a.kind {
                    FormatArgumentKind::Normal => "normal".to_string(),
                    FormatArgumentKind::Named(i) => format!("named:{}", i.name),
                    FormatArgumentKind::Captured(i) => format!("captured:{}", i.name),
                };
                args.push(J::obj(vec![
                    ("kind", J::Str(kind)),
                    ("expr", J::Str(pprust::expr_to_string(&a.expr))),
                ]));
            }
            let macros: Vec<J> = e
                .span
                .macro_backtrace()
                .map(|d| J::Str(format!("{}", d.kind.descr())))
                .collect();
            self.fmt.push(J::obj(vec![
                ("mod", J::Str(self.scope.join("::"))),
                ("impl_self", J::Str(self.impl_self.last().cloned().unwrap_or_default())),
                ("impl_trait", J::Str(self.impl_trait.last().cloned().unwrap_or_default())),
                ("fns", J::Arr(self.fns.iter().map(|s| J::s(s)).collect())),
                ("arms", J::Arr(self.arms.iter().map(|s| J::s(s)).collect())),
                ("pieces", J::Arr(pieces)),
                ("args", J::Arr(args)),
                ("macros", J::Arr(macros)),
                ("span", J::Str(span_s(self.tcx, e.span))),
                ("callsite", J::Str(span_s(self.tcx, e.span.source_callsite()))),
            ]));
        }
        visit::walk_expr(self, e);
    }
}

pub fn export_ast<'tcx>(tcx: TyCtxt<'tcx>, krate: &ast::Crate) -> (Vec<J>, Vec<J>) {
    let mut fmt = vec![];
    let mut attrs = vec![];
    {
        let mut v = V {
            tcx,
            scope: vec![],
            impl_self: vec![],
            impl_trait: vec![],
            fns: vec![],
            arms: vec![],
            fmt: &mut fmt,
            attrs: &mut attrs,
            adt: vec![],
        };
        visit::walk_crate(&mut v, krate);
    }
    (fmt, attrs)
}
