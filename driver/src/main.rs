//! plv-driver: a rustc_private exporter.
//!
//! Runs as RUSTC_WORKSPACE_WRAPPER (argv[1] is the real rustc path and is dropped).
//! For every workspace crate it compiles it writes ONE json fact file into $PLV_OUT:
//!   * "bodies": optimized MIR (build with -Zmir-opt-level=0) of every local fn / method / closure,
//!     with resolved callees, structured places, rvalues and terminators;
//!   * "adts": local struct/enum definitions (variants, fields, types, visibility);
//!   * "fmt": every `format_args!` node of the expanded AST (template pieces, arguments, enclosing
//!     fn, enclosing match-arm pattern);
//!   * "attrs": `#[serde(..)]` / `#[derive(..)]` attributes on items, variants and fields;
//!   * "consts": evaluated local integer constants.
//! Nothing from the analysed crate is executed.
#![feature(rustc_private)]
#![feature(box_patterns)]
#![allow(clippy::all)]

extern crate rustc_abi;
extern crate rustc_ast;
extern crate rustc_ast_pretty;
extern crate rustc_driver;
extern crate rustc_hir;
extern crate rustc_interface;
extern crate rustc_middle;
extern crate rustc_session;
extern crate rustc_span;

mod astx;
mod json;
mod mirx;

use json::J;
use rustc_driver::{Callbacks, Compilation};
use rustc_interface::interface::Compiler;
use rustc_middle::ty::TyCtxt;

struct Cb {
    ast_fmt: Vec<J>,
    ast_attrs: Vec<J>,
    is_test: bool,
    extra: String,
}

impl Callbacks for Cb {
    fn after_expansion<'tcx>(&mut self, _c: &Compiler, tcx: TyCtxt<'tcx>) -> Compilation {
        let steal = tcx.resolver_for_lowering();
        let guard = steal.borrow();
        let krate = &guard.1;
        let (f, a) = astx::export_ast(tcx, krate);
        self.ast_fmt = f;
        self.ast_attrs = a;
        Compilation::Continue
    }

    fn after_analysis<'tcx>(&mut self, _c: &Compiler, tcx: TyCtxt<'tcx>) -> Compilation {
        let out_dir = match std::env::var("PLV_OUT") {
            Ok(d) => d,
            Err(_) => return Compilation::Continue,
        };
        let crate_name = tcx.crate_name(rustc_hir::def_id::LOCAL_CRATE).to_string();
        let doc = rustc_middle::ty::print::with_no_trimmed_paths!(mirx::export_crate(tcx));
        let mut top = vec![
            ("crate".to_string(), J::s(&crate_name)),
            ("is_test".to_string(), J::Bool(self.is_test)),
            ("nonce".to_string(), J::s(&std::env::var("PLV_NONCE").unwrap_or_default())),
        ];
        if let J::Obj(kv) = doc {
            top.extend(kv);
        }
        top.push(("fmt".to_string(), J::Arr(std::mem::take(&mut self.ast_fmt))));
        top.push(("attrs".to_string(), J::Arr(std::mem::take(&mut self.ast_attrs))));
        let mut s = String::new();
        J::Obj(top).write(&mut s);
        let fname = format!(
            "{}/{}{}{}.json",
            out_dir,
            crate_name,
            if self.is_test { "-test" } else { "" },
            self.extra
        );
        // one write per process
        let tmp = format!("{}.tmp{}", fname, std::process::id());
        std::fs::write(&tmp, s).expect("plv-driver: cannot write fact file");
        std::fs::rename(&tmp, &fname).expect("plv-driver: cannot rename fact file");
        Compilation::Continue
    }
}

fn main() {
    let mut args: Vec<String> = std::env::args().collect();
    // wrapper mode: argv[1] is the path of the real rustc
    if args.len() > 1 && (args[1].ends_with("rustc") || args[1].contains("/rustc")) {
        args.remove(1);
    }
    let is_test = args.iter().any(|a| a == "--test");
    let mut extra = String::new();
    let mut it = args.iter();
    while let Some(a) = it.next() {
        if a == "-C" {
            if let Some(v) = it.next() {
                if let Some(x) = v.strip_prefix("extra-filename=") {
                    extra = x.to_string();
                }
            }
        } else if let Some(x) = a.strip_prefix("-Cextra-filename=") {
            extra = x.to_string();
        }
    }
    let mut cb = Cb { ast_fmt: vec![], ast_attrs: vec![], is_test, extra };
    let code = rustc_driver::catch_with_exit_code(move || {
        rustc_driver::run_compiler(&args, &mut cb);
    });
    std::process::exit(if code == std::process::ExitCode::SUCCESS { 0 } else { 1 });
}
